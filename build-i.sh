#!/bin/bash
# Instruments the data-server packages (from /repo's current working tree) and builds bin/vcheck-i with the overlay.
set -eu
export VERIF_DIR="${VERIF_DIR:-/verif}"
export GOFLAGS=-mod=mod GOPROXY=off GOSUMDB=off GOTOOLCHAIN=local
mkdir -p "$VERIF_DIR/bin"
exec 8>"$VERIF_DIR/bin/.build-i.lock"
flock 8
SCRATCH=/dev/shm/verif-instr-$$
trap 'rm -rf "$SCRATCH"' EXIT
(cd "$VERIF_DIR/instr" && go build -o "$VERIF_DIR/bin/instr" .)
"$VERIF_DIR/bin/instr" -track github.com/sdcio/data-server/pkg/datastore/types -repo /repo -rt "$VERIF_DIR/rt" -out "$SCRATCH" ./pkg/datastore/types ./pkg/datastore ./pkg/server >&2
cd "$VERIF_DIR/harness"
go build -tags "verif verifsched" -overlay "$SCRATCH/overlay.json" -o "$VERIF_DIR/bin/vcheck-i" ./cmd/vcheck
