#!/bin/bash
# Instruments pkg/tree, pkg/types and the bound schema client (from /repo's current working tree) and builds
# bin/vcheck-t: the build in which tree validation runs under the cooperative scheduler (C17).
set -eu
export VERIF_DIR="${VERIF_DIR:-/verif}"
export GOFLAGS=-mod=mod GOPROXY=off GOSUMDB=off GOTOOLCHAIN=local
mkdir -p "$VERIF_DIR/bin"
exec 8>"$VERIF_DIR/bin/.build-t.lock"
flock 8
SCRATCH=/dev/shm/verif-instr-t-$$
trap 'rm -rf "$SCRATCH"' EXIT
(cd "$VERIF_DIR/instr" && go build -o "$VERIF_DIR/bin/instr" .)
"$VERIF_DIR/bin/instr" -detmaps -track github.com/sdcio/data-server/pkg/tree,github.com/sdcio/data-server/pkg/types -repo /repo -rt "$VERIF_DIR/rt" -out "$SCRATCH" ./pkg/tree ./pkg/types ./pkg/datastore/clients/schema >&2
cd "$VERIF_DIR/harness"
go build -tags "verif verifsched" -overlay "$SCRATCH/overlay.json" -o "$VERIF_DIR/bin/vcheck-t" ./cmd/vcheck
