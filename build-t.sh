#!/bin/bash
# Instruments pkg/tree, pkg/types and the bound schema client (from /repo's current working tree) and builds
# bin/vcheck-t: the build in which tree validation runs under the cooperative scheduler (C17).
set -eu
export VERIF_DIR="${VERIF_DIR:-/verif}"
export GOFLAGS=-mod=mod GOPROXY=off GOSUMDB=off GOTOOLCHAIN=local
mkdir -p "$VERIF_DIR/bin"
exec 8>"$VERIF_DIR/bin/.build-t.lock"
flock 8
SCRATCH=/dev/shm/verif-instr-t-$$
trap 'rm -rf "$SCRATCH"' EXIT
(cd "$VERIF_DIR/instr" && go build -o "$VERIF_DIR/bin/instr" .)
"$VERIF_DIR/bin/instr" -detmaps -track github.com/sdcio/data-server/pkg/tree,github.com/sdcio/data-server/pkg/types,github.com/sdcio/data-server/pkg/datastore/clients/schema -repo /repo -rt "$VERIF_DIR/rt" -out "$SCRATCH" ./pkg/tree ./pkg/types ./pkg/datastore/clients/schema >&2
cd "$VERIF_DIR/harness"
go build -tags "verif verifsched" -overlay "$SCRATCH/overlay.json" -o "$VERIF_DIR/bin/vcheck-t" ./cmd/vcheck
# supplementary free-running pass: the same harness without instrumented sources, with the Go race detector
python3 - "$SCRATCH" "$VERIF_DIR" <<'PY'
import json,os,sys
out,vd=sys.argv[1],sys.argv[2]
rt=os.path.join(vd,'rt'); ov={}
for root,_,files in os.walk(rt):
    for f in files:
        if f.endswith('.go') and not f.endswith('_test.go'):
            p=os.path.join(root,f); ov[os.path.join('/repo/pkg/verifrt',os.path.relpath(p,rt))]=p
json.dump({"Replace":ov},open(out+'/overlay-rt.json','w'))
PY
go build -race -tags "verif verifsched" -overlay "$SCRATCH/overlay-rt.json" -o "$VERIF_DIR/bin/vcheck-race" ./cmd/vcheck
