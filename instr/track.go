package main

import (
	"go/ast"
	"go/token"
	"go/types"
	"strings"

	"golang.org/x/tools/go/ast/astutil"
)

// Second pass (option -track): struct-field and map accesses of the tracked packages are routed through
// verifrt.R / W / MapR / MapW, at the place and in the evaluation order of the original expression, so that
// the runtime's happens-before race detector sees them. Only what can be rewritten without changing the
// meaning is rewritten; everything else is left alone (an access that is not reported cannot cause an alarm).

type trackInfo struct {
	sel      map[*ast.SelectorExpr]bool // field selector to track
	structV  map[*ast.SelectorExpr]bool // its value is a struct (not a pointer): not tracked when only a sub-field is used
	mapIndex map[*ast.IndexExpr]bool    // index expression on a map
	mapCall  map[*ast.CallExpr]bool     // len(m) / delete(m, k) on a map
}

func (in *instr) trackedPkg(p *types.Package) bool {
	if p == nil {
		return false
	}
	for _, t := range strings.Split(*track, ",") {
		if t != "" && p.Path() == t {
			return true
		}
	}
	return false
}

func isSyncType(t types.Type) bool {
	for {
		if p, ok := t.(*types.Pointer); ok {
			t = p.Elem()
			continue
		}
		break
	}
	if n, ok := t.(*types.Named); ok && n.Obj().Pkg() != nil {
		pp := n.Obj().Pkg().Path()
		return pp == "sync" || strings.HasSuffix(pp, "/vsync") || strings.HasSuffix(pp, "/vsem") || pp == "sync/atomic" || pp == "golang.org/x/sync/semaphore"
	}
	return false
}

// addressable reports whether &e is legal (on the original, still typed, expression).
func (in *instr) addressable(e ast.Expr) bool {
	switch x := e.(type) {
	case *ast.Ident:
		_, isVar := in.info.Uses[x].(*types.Var)
		if !isVar {
			_, isVar = in.info.Defs[x].(*types.Var)
		}
		return isVar
	case *ast.ParenExpr:
		return in.addressable(x.X)
	case *ast.StarExpr:
		return true
	case *ast.SelectorExpr:
		s := in.info.Selections[x]
		if s == nil {
			// qualified identifier pkg.Var
			_, isVar := in.info.Uses[x.Sel].(*types.Var)
			return isVar
		}
		if s.Kind() != types.FieldVal {
			return false
		}
		return s.Indirect() || in.addressable(x.X)
	case *ast.IndexExpr:
		tv, ok := in.info.Types[x.X]
		if !ok {
			return false
		}
		switch u := tv.Type.Underlying().(type) {
		case *types.Slice:
			return true
		case *types.Pointer: // pointer to array
			_ = u
			return true
		case *types.Array:
			return in.addressable(x.X)
		}
		return false
	}
	return false
}

func (in *instr) isMapType(e ast.Expr) bool {
	tv, ok := in.info.Types[e]
	if !ok || tv.Type == nil {
		return false
	}
	_, isMap := tv.Type.Underlying().(*types.Map)
	return isMap
}

func (in *instr) trackPass() {
	ti := &trackInfo{sel: map[*ast.SelectorExpr]bool{}, structV: map[*ast.SelectorExpr]bool{}, mapIndex: map[*ast.IndexExpr]bool{}, mapCall: map[*ast.CallExpr]bool{}}
	// everything that needs type information is decided before anything is replaced
	ast.Inspect(in.file, func(n ast.Node) bool {
		switch x := n.(type) {
		case *ast.SelectorExpr:
			s := in.info.Selections[x]
			if s == nil || s.Kind() != types.FieldVal {
				return true
			}
			fld, ok := s.Obj().(*types.Var)
			if !ok || !in.trackedPkg(fld.Pkg()) || isSyncType(fld.Type()) {
				return true
			}
			if !(s.Indirect() || in.addressable(x.X)) {
				return true
			}
			ti.sel[x] = true
			if _, isStruct := fld.Type().Underlying().(*types.Struct); isStruct {
				ti.structV[x] = true
			}
		case *ast.IndexExpr:
			if in.isMapType(x.X) {
				ti.mapIndex[x] = true
			}
		case *ast.CallExpr:
			if id, ok := x.Fun.(*ast.Ident); ok && (id.Name == "len" || id.Name == "delete") && len(x.Args) >= 1 {
				if _, isBuiltin := in.info.Uses[id].(*types.Builtin); isBuiltin && in.isMapType(x.Args[0]) {
					ti.mapCall[x] = true
				}
			}
		}
		return true
	})
	isWriteCtx := func(c *astutil.Cursor) bool {
		switch p := c.Parent().(type) {
		case *ast.AssignStmt:
			return c.Name() == "Lhs" && p.Tok != token.DEFINE
		case *ast.IncDecStmt:
			return true
		}
		return false
	}
	astutil.Apply(in.file, nil, func(c *astutil.Cursor) bool {
		switch n := c.Node().(type) {
		case *ast.SelectorExpr:
			if !ti.sel[n] {
				return true
			}
			// x.a.b with a struct-valued field a: only b is accessed
			if ps, ok := c.Parent().(*ast.SelectorExpr); ok && ps.X == n && ti.structV[n] {
				if s := in.info.Selections[ps]; s != nil && s.Kind() == types.FieldVal {
					return true
				}
			}
			// operand of &: the address escapes, nothing is accessed here
			if u, ok := c.Parent().(*ast.UnaryExpr); ok && u.Op == token.AND {
				return true
			}
			fn := "R"
			if isWriteCtx(c) {
				fn = "W"
			}
			st.Tracked++
			c.Replace(&ast.StarExpr{X: in.call(fn, &ast.UnaryExpr{Op: token.AND, X: n})})
		case *ast.IndexExpr:
			if !ti.mapIndex[n] {
				return true
			}
			fn := "MapR"
			if isWriteCtx(c) {
				fn = "MapW"
			}
			st.Tracked++
			n.X = in.call(fn, n.X)
		case *ast.CallExpr:
			if !ti.mapCall[n] {
				return true
			}
			fn := "MapR"
			if id := n.Fun.(*ast.Ident); id.Name == "delete" {
				fn = "MapW"
			}
			st.Tracked++
			n.Args[0] = in.call(fn, n.Args[0])
		}
		return true
	})
}
