// instr rewrites the synchronisation operations of the listed data-server packages so that they go
// through the controlled-scheduler runtime (pkg/verifrt, a virtual package added by the overlay).
//
//	instr -repo /repo -out /dev/shm/verif-instr -rt /verif/rt -tags verif ./pkg/datastore/types ./pkg/datastore
//
// It reads the packages from the repository's *current working tree*, writes rewritten copies of the files
// below -out and an overlay.json that maps the original paths to the rewritten ones and adds the runtime.
// Anything it cannot classify is a hard error (exit 2): nothing is silently left un-instrumented.
package main

import (
	"bytes"
	"encoding/json"
	"flag"
	"fmt"
	"go/ast"
	"go/format"
	"go/token"
	"go/types"
	"os"
	"path/filepath"
	"sort"
	"strconv"
	"strings"

	"golang.org/x/tools/go/ast/astutil"
	"golang.org/x/tools/go/packages"
)

const rtPath = "github.com/sdcio/data-server/pkg/verifrt"

type stats struct {
	Files, GoStmts, Sends, Recvs, Closes, Ranges, Selects, Makes, TimeCalls, SyncImports, SemImports, MapRanges, Tracked int
}

var st stats

func fatal(format string, a ...any) {
	fmt.Fprintf(os.Stderr, "instr: "+format+"\n", a...)
	os.Exit(2)
}

func main() {
	repo := flag.String("repo", "/repo", "repository root")
	out := flag.String("out", "", "output directory for rewritten files and overlay.json")
	rt := flag.String("rt", "/verif/rt", "directory holding the runtime sources")
	tags := flag.String("tags", "verif", "build tags")
	flag.Parse()
	if *out == "" || flag.NArg() == 0 {
		fatal("usage: instr -out DIR pkg...")
	}
	cfg := &packages.Config{
		Mode:       packages.NeedName | packages.NeedFiles | packages.NeedCompiledGoFiles | packages.NeedSyntax | packages.NeedTypes | packages.NeedTypesInfo | packages.NeedImports,
		Dir:        *repo,
		BuildFlags: []string{"-tags", *tags},
		Env:        append(os.Environ(), "GOFLAGS=-mod=mod", "GOPROXY=off", "GOSUMDB=off", "GOTOOLCHAIN=local"),
	}
	pkgs, err := packages.Load(cfg, flag.Args()...)
	if err != nil {
		fatal("load: %v", err)
	}
	if packages.PrintErrors(pkgs) > 0 {
		fatal("packages have errors")
	}
	overlay := map[string]string{}
	if err := os.MkdirAll(*out, 0o755); err != nil {
		fatal("%v", err)
	}
	for _, pkg := range pkgs {
		for i, f := range pkg.Syntax {
			name := pkg.CompiledGoFiles[i]
			if strings.HasSuffix(name, "_test.go") {
				continue
			}
			in := &instr{pkg: pkg, fset: pkg.Fset, file: f, info: pkg.TypesInfo}
			// keep only the comments in front of the package clause (build constraints): the printer places
			// comments by position, which goes wrong around replaced nodes
			var keep []*ast.CommentGroup
			for _, cg := range f.Comments {
				if cg.End() < f.Package {
					keep = append(keep, cg)
				}
			}
			f.Comments = keep
			changed := in.rewriteFile()
			if !changed {
				continue
			}
			var buf bytes.Buffer
			if err := format.Node(&buf, pkg.Fset, f); err != nil {
				fatal("print %s: %v", name, err)
			}
			rel, _ := filepath.Rel(*repo, name)
			dst := filepath.Join(*out, "src", rel)
			if err := os.MkdirAll(filepath.Dir(dst), 0o755); err != nil {
				fatal("%v", err)
			}
			if err := os.WriteFile(dst, buf.Bytes(), 0o644); err != nil {
				fatal("%v", err)
			}
			overlay[name] = dst
			st.Files++
		}
	}
	// the runtime as a virtual package of the data-server module
	err = filepath.Walk(*rt, func(p string, fi os.FileInfo, err error) error {
		if err != nil || fi.IsDir() || !strings.HasSuffix(p, ".go") || strings.HasSuffix(p, "_test.go") {
			return err
		}
		rel, _ := filepath.Rel(*rt, p)
		overlay[filepath.Join(*repo, "pkg", "verifrt", rel)] = p
		return nil
	})
	if err != nil {
		fatal("%v", err)
	}
	b, _ := json.MarshalIndent(map[string]any{"Replace": overlay}, "", " ")
	if err := os.WriteFile(filepath.Join(*out, "overlay.json"), b, 0o644); err != nil {
		fatal("%v", err)
	}
	sb, _ := json.Marshal(st)
	_ = os.WriteFile(filepath.Join(*out, "stats.json"), sb, 0o644)
	fmt.Fprintf(os.Stderr, "instr: %s\n", sb)
}

var (
	detMaps = flag.Bool("detmaps", false, "iterate maps in key order (range statements) in the instrumented packages")
	track   = flag.String("track", "", "comma separated import paths whose struct fields and maps are tracked by the race detector")
)

type instr struct {
	pkg     *packages.Package
	fset    *token.FileSet
	file    *ast.File
	info    *types.Info
	usedRT  bool
	tmp     int
	changed bool
}

func (in *instr) pos(n ast.Node) string { return in.fset.Position(n.Pos()).String() }

func (in *instr) rt(name string) ast.Expr {
	in.usedRT = true
	return &ast.SelectorExpr{X: ast.NewIdent("verifrt"), Sel: ast.NewIdent(name)}
}

func (in *instr) call(name string, args ...ast.Expr) *ast.CallExpr {
	return &ast.CallExpr{Fun: in.rt(name), Args: args}
}

func (in *instr) fresh(prefix string) *ast.Ident {
	in.tmp++
	return ast.NewIdent(fmt.Sprintf("_vr%s%d", prefix, in.tmp))
}

func (in *instr) isMap(e ast.Expr) bool {
	tv, ok := in.info.Types[e]
	if !ok || tv.Type == nil {
		return false
	}
	_, isMap := tv.Type.Underlying().(*types.Map)
	return isMap
}

func (in *instr) isChan(e ast.Expr) bool {
	tv, ok := in.info.Types[e]
	if !ok || tv.Type == nil {
		return false
	}
	_, isChan := tv.Type.Underlying().(*types.Chan)
	return isChan
}

// isPkgCall reports whether e is a call pkg.Name(...) for the real package path.
func (in *instr) pkgFunc(e ast.Expr) (pkgPath, name string) {
	sel, ok := e.(*ast.SelectorExpr)
	if !ok {
		return "", ""
	}
	id, ok := sel.X.(*ast.Ident)
	if !ok {
		return "", ""
	}
	if pn, ok := in.info.Uses[id].(*types.PkgName); ok {
		return pn.Imported().Path(), sel.Sel.Name
	}
	return "", ""
}

func (in *instr) rewriteFile() bool {
	// imports
	for _, imp := range in.file.Imports {
		p, _ := strconv.Unquote(imp.Path.Value)
		switch p {
		case "sync":
			imp.Path.Value = strconv.Quote(rtPath + "/vsync")
			if imp.Name == nil {
				imp.Name = ast.NewIdent("sync")
			}
			st.SyncImports++
			in.changed = true
		case "golang.org/x/sync/semaphore":
			imp.Path.Value = strconv.Quote(rtPath + "/vsem")
			if imp.Name == nil {
				imp.Name = ast.NewIdent("semaphore")
			}
			st.SemImports++
			in.changed = true
		case "sync/atomic":
			// atomics are not modelled; none occur in the instrumented packages at the pinned commit
			fatal("%s imports sync/atomic: not supported by the instrumenter", in.fset.Position(imp.Pos()))
		}
	}
	astutil.Apply(in.file, in.pre, in.post)
	if *track != "" {
		in.trackPass()
	}
	if in.usedRT {
		astutil.AddNamedImport(in.fset, in.file, "verifrt", rtPath)
		in.changed = true
	}
	return in.changed
}

func (in *instr) pre(c *astutil.Cursor) bool {
	return true
}

// post rewrites bottom-up so that nested constructs are handled before their parents.
func (in *instr) post(c *astutil.Cursor) bool {
	switch n := c.Node().(type) {
	case *ast.GoStmt:
		c.Replace(in.rewriteGo(n))
	case *ast.SendStmt:
		if _, inSelect := c.Parent().(*ast.CommClause); inSelect && c.Name() == "Comm" {
			return true // the case header is handled by the select rewrite (sends in a case body are rewritten here)
		}
		st.Sends++
		c.Replace(&ast.ExprStmt{X: in.call("Send", n.Chan, n.Value)})
	case *ast.UnaryExpr:
		if n.Op != token.ARROW {
			return true
		}
		// receives inside a select comm clause are handled by the select rewrite
		if in.inCommHeader(c) {
			return true
		}
		st.Recvs++
		// v, ok := <-ch ?
		if as, ok := c.Parent().(*ast.AssignStmt); ok && len(as.Lhs) == 2 && len(as.Rhs) == 1 && as.Rhs[0] == n {
			c.Replace(in.call("Recv2", n.X))
		} else if vs, ok := c.Parent().(*ast.ValueSpec); ok && len(vs.Names) == 2 && len(vs.Values) == 1 && vs.Values[0] == n {
			c.Replace(in.call("Recv2", n.X))
		} else {
			c.Replace(in.call("Recv", n.X))
		}
	case *ast.CallExpr:
		in.rewriteCall(c, n)
	case *ast.RangeStmt:
		if in.isChan(n.X) {
			c.Replace(in.rewriteRange(n))
		} else if *detMaps && in.isMap(n.X) {
			st.MapRanges++
			n.X = in.call("RangeMap", n.X)
			in.changed = true
		}
	case *ast.SelectStmt:
		if _, labeled := c.Parent().(*ast.LabeledStmt); labeled {
			fatal("%s: labeled select statements are not supported", in.pos(n))
		}
		c.Replace(in.rewriteSelect(n))
	}
	return true
}

// inCommHeader reports whether the cursor's node is the receive expression of a select case header.
func (in *instr) inCommHeader(c *astutil.Cursor) bool {
	switch p := c.Parent().(type) {
	case *ast.CommClause:
		return true
	case *ast.ExprStmt:
		_ = p
		return in.isCommOf(p)
	case *ast.AssignStmt:
		return in.isCommOf(p)
	}
	return false
}

// commHeaders is filled lazily: set of statements that are CommClause.Comm.
var commHeaders = map[ast.Stmt]bool{}
var commScanned = map[*ast.File]bool{}

func (in *instr) isCommOf(s ast.Stmt) bool {
	if !commScanned[in.file] {
		commScanned[in.file] = true
		ast.Inspect(in.file, func(n ast.Node) bool {
			if cc, ok := n.(*ast.CommClause); ok && cc.Comm != nil {
				commHeaders[cc.Comm] = true
			}
			return true
		})
	}
	return commHeaders[s]
}

func (in *instr) rewriteGo(n *ast.GoStmt) ast.Stmt {
	st.GoStmts++
	call := n.Call
	var stmts []ast.Stmt
	// evaluate the function value and the arguments in the calling goroutine
	fn := in.fresh("f")
	stmts = append(stmts, &ast.AssignStmt{Lhs: []ast.Expr{fn}, Tok: token.DEFINE, Rhs: []ast.Expr{call.Fun}})
	var args []ast.Expr
	for _, a := range call.Args {
		id := in.fresh("a")
		stmts = append(stmts, &ast.AssignStmt{Lhs: []ast.Expr{id}, Tok: token.DEFINE, Rhs: []ast.Expr{a}})
		args = append(args, id)
	}
	inner := &ast.CallExpr{Fun: fn, Args: args, Ellipsis: call.Ellipsis}
	name := "go@" + filepath.Base(in.fset.Position(n.Pos()).Filename) + ":" + strconv.Itoa(in.fset.Position(n.Pos()).Line)
	stmts = append(stmts, &ast.ExprStmt{X: in.call("Go", &ast.BasicLit{Kind: token.STRING, Value: strconv.Quote(name)},
		&ast.FuncLit{Type: &ast.FuncType{Params: &ast.FieldList{}}, Body: &ast.BlockStmt{List: []ast.Stmt{&ast.ExprStmt{X: inner}}}})})
	return &ast.BlockStmt{List: stmts}
}

func (in *instr) rewriteCall(c *astutil.Cursor, n *ast.CallExpr) {
	// close(ch)
	if id, ok := n.Fun.(*ast.Ident); ok && id.Name == "close" && len(n.Args) == 1 {
		if _, isBuiltin := in.info.Uses[id].(*types.Builtin); isBuiltin && in.isChan(n.Args[0]) {
			st.Closes++
			n.Fun = in.rt("Close")
		}
		return
	}
	// make(chan T, n)
	if id, ok := n.Fun.(*ast.Ident); ok && id.Name == "make" && len(n.Args) >= 1 {
		if _, isBuiltin := in.info.Uses[id].(*types.Builtin); isBuiltin {
			if ct, ok := n.Args[0].(*ast.ChanType); ok {
				if ct.Dir != ast.SEND|ast.RECV {
					fatal("%s: make of a directional channel", in.pos(n))
				}
				st.Makes++
				n.Fun = &ast.IndexExpr{X: in.rt("MakeChan"), Index: ct.Value}
				n.Args = n.Args[1:]
				for i, a := range n.Args {
					n.Args[i] = &ast.CallExpr{Fun: ast.NewIdent("int"), Args: []ast.Expr{a}}
				}
			} else if in.isChan(n) {
				fatal("%s: make(<named channel type>) is not supported", in.pos(n))
			}
		}
		return
	}
	// time.X
	if p, name := in.pkgFunc(n.Fun); p == "time" {
		switch name {
		case "NewTimer", "NewTicker", "Sleep", "After", "Now":
			st.TimeCalls++
			n.Fun = in.rt(name)
		case "AfterFunc", "Tick":
			fatal("%s: time.%s is not supported by the instrumenter", in.pos(n), name)
		}
	}
}

func (in *instr) rewriteRange(n *ast.RangeStmt) ast.Stmt {
	st.Ranges++
	okID := in.fresh("ok")
	// the range expression is evaluated exactly once
	chID := in.fresh("ch")
	chInit := &ast.AssignStmt{Lhs: []ast.Expr{chID}, Tok: token.DEFINE, Rhs: []ast.Expr{n.X}}
	var lhs0 ast.Expr = ast.NewIdent("_")
	tok := token.DEFINE
	if n.Key != nil {
		lhs0 = n.Key
		if n.Tok == token.ASSIGN {
			// `for x = range ch`: x is assigned, ok must be declared separately
			decl := &ast.DeclStmt{Decl: &ast.GenDecl{Tok: token.VAR, Specs: []ast.Spec{&ast.ValueSpec{Names: []*ast.Ident{okID}, Type: ast.NewIdent("bool")}}}}
			recv := &ast.AssignStmt{Lhs: []ast.Expr{lhs0, okID}, Tok: token.ASSIGN, Rhs: []ast.Expr{in.call("Recv2", chID)}}
			brk := &ast.IfStmt{Cond: &ast.UnaryExpr{Op: token.NOT, X: okID}, Body: &ast.BlockStmt{List: []ast.Stmt{&ast.BranchStmt{Tok: token.BREAK}}}}
			body := append([]ast.Stmt{decl, recv, brk}, n.Body.List...)
			return &ast.ForStmt{Init: chInit, Body: &ast.BlockStmt{List: body}}
		}
	}
	if n.Value != nil {
		fatal("%s: range over channel with two variables", in.pos(n))
	}
	recv := &ast.AssignStmt{Lhs: []ast.Expr{lhs0, okID}, Tok: tok, Rhs: []ast.Expr{in.call("Recv2", chID)}}
	brk := &ast.IfStmt{Cond: &ast.UnaryExpr{Op: token.NOT, X: okID}, Body: &ast.BlockStmt{List: []ast.Stmt{&ast.BranchStmt{Tok: token.BREAK}}}}
	body := append([]ast.Stmt{recv, brk}, n.Body.List...)
	return &ast.ForStmt{Init: chInit, Body: &ast.BlockStmt{List: body}}
}

func (in *instr) rewriteSelect(n *ast.SelectStmt) ast.Stmt {
	st.Selects++
	if len(n.Body.List) == 0 {
		return &ast.ExprStmt{X: in.call("BlockForever")}
	}
	var pre []ast.Stmt
	var cases []ast.Expr
	var clauses []ast.Stmt
	hasDefault := false
	sel := in.fresh("sel")
	idx := 0
	for _, s := range n.Body.List {
		cc := s.(*ast.CommClause)
		if cc.Comm == nil {
			hasDefault = true
			clauses = append(clauses, &ast.CaseClause{List: []ast.Expr{&ast.UnaryExpr{Op: token.SUB, X: &ast.BasicLit{Kind: token.INT, Value: "1"}}}, Body: cc.Body})
			continue
		}
		var body []ast.Stmt
		switch comm := cc.Comm.(type) {
		case *ast.SendStmt:
			chID, vID := in.fresh("c"), in.fresh("v")
			pre = append(pre, &ast.AssignStmt{Lhs: []ast.Expr{chID}, Tok: token.DEFINE, Rhs: []ast.Expr{comm.Chan}},
				&ast.AssignStmt{Lhs: []ast.Expr{vID}, Tok: token.DEFINE, Rhs: []ast.Expr{comm.Value}})
			cases = append(cases, in.call("CaseSend", chID, vID))
		case *ast.ExprStmt: // case <-ch:
			u, ok := comm.X.(*ast.UnaryExpr)
			if !ok || u.Op != token.ARROW {
				fatal("%s: unexpected select case", in.pos(comm))
			}
			chID := in.fresh("c")
			pre = append(pre, &ast.AssignStmt{Lhs: []ast.Expr{chID}, Tok: token.DEFINE, Rhs: []ast.Expr{u.X}})
			cases = append(cases, in.call("CaseRecv", chID))
		case *ast.AssignStmt: // case v := <-ch / v, ok := <-ch / v = <-ch
			if len(comm.Rhs) != 1 {
				fatal("%s: unexpected select case", in.pos(comm))
			}
			u, ok := comm.Rhs[0].(*ast.UnaryExpr)
			if !ok || u.Op != token.ARROW {
				fatal("%s: unexpected select case", in.pos(comm))
			}
			chID := in.fresh("c")
			pre = append(pre, &ast.AssignStmt{Lhs: []ast.Expr{chID}, Tok: token.DEFINE, Rhs: []ast.Expr{u.X}})
			cases = append(cases, in.call("CaseRecv", chID))
			fn := "SelRecv"
			if len(comm.Lhs) == 2 {
				fn = "SelRecv2"
			}
			body = append(body, &ast.AssignStmt{Lhs: comm.Lhs, Tok: comm.Tok, Rhs: []ast.Expr{in.call(fn, sel, chID)}})
			// variables declared by the case header may be unused in the body
			if comm.Tok == token.DEFINE {
				for _, l := range comm.Lhs {
					if id, ok := l.(*ast.Ident); ok && id.Name != "_" {
						body = append(body, &ast.AssignStmt{Lhs: []ast.Expr{ast.NewIdent("_")}, Tok: token.ASSIGN, Rhs: []ast.Expr{ast.NewIdent(id.Name)}})
					}
				}
			}
		default:
			fatal("%s: unexpected select case %T", in.pos(cc), cc.Comm)
		}
		body = append(body, cc.Body...)
		clauses = append(clauses, &ast.CaseClause{List: []ast.Expr{&ast.BasicLit{Kind: token.INT, Value: strconv.Itoa(idx)}}, Body: body})
		idx++
	}
	hd := "false"
	if hasDefault {
		hd = "true"
	}
	selCall := in.call("Select", append([]ast.Expr{ast.NewIdent(hd)}, cases...)...)
	pre = append(pre, &ast.AssignStmt{Lhs: []ast.Expr{sel}, Tok: token.DEFINE, Rhs: []ast.Expr{selCall}})
	sw := &ast.SwitchStmt{Tag: &ast.SelectorExpr{X: sel, Sel: ast.NewIdent("Index")}, Body: &ast.BlockStmt{List: clauses}}
	// a `break` inside a select case leaves the select: inside the switch it leaves the switch, the same
	pre = append(pre, sw)
	return &ast.BlockStmt{List: pre}
}

func init() {
	_ = sort.Strings
}
