// vcheck runs one property check: vcheck <C01..C20> ; tier from VERIF_TIER (quick|thorough).
package main

import (
	"fmt"
	"os"
	"os/signal"
	"syscall"

	"verif/harness/h"
)

func main() {
	if len(os.Args) < 2 {
		fmt.Fprintln(os.Stderr, "usage: vcheck <property-id> | replay <file>")
		os.Exit(2)
	}
	h.Quiet()
	h.CleanStaleScratch()
	signal.Ignore(syscall.SIGPIPE)
	id := os.Args[1]
	f, ok := h.Checks[id]
	if !ok {
		fmt.Fprintf(os.Stderr, "unknown check %q\n", id)
		os.Exit(2)
	}
	os.Exit(f(os.Args[2:]))
}
