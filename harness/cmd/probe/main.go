package main

import (
	"fmt"
	"os"

	"verif/harness/h"
)

func main() {
	h.Quiet()
	u, err := h.LoadUniverse()
	if err != nil {
		panic(err)
	}
	dir, _ := h.ScratchDir("probe")
	defer os.RemoveAll(dir)
	cc, err := h.NewLocalCache(dir)
	if err != nil {
		panic(err)
	}
	frags := h.ChoiceFragments()
	run := func(ops ...h.Op) {
		w, err := h.NewWorld(u, cc, nil, h.WorldOpts{Fragments: frags})
		if err != nil {
			panic(err)
		}
		defer w.Close()
		for _, op := range ops {
			out := w.Apply(op)
			c := w.Dev.Calls[len(w.Dev.Calls)-1]
			fmt.Println(op, "rej:", out.Rejected(), "err:", out.Err, "upd:", c.Updates, "del:", c.Deletes)
		}
		fmt.Println("  device:", w.Dev.Snapshot())
	}
	S := func(o string, p int32, f string) h.Op { return h.Op{Intents: []h.IntentSpec{{Owner: o, Prio: p, Frag: f}}} }
	run(S("B", 20, "cb1"), S("A", 25, "cb1"), S("A", 10, "ca1"))
	run(S("A", 25, "cpc"), S("C", 30, "cab"), S("A", 10, "ca1"))
}
