package main

import (
	"fmt"
	"os"

	dconfig "github.com/sdcio/data-server/pkg/config"
	cachepb "github.com/sdcio/cache/proto/cachepb"
	"verif/harness/h"
	log "github.com/sirupsen/logrus"
)

// ad-hoc experiments go here
func main() {
	u, err := h.LoadUniverse()
	if err != nil {
		panic(err)
	}
	dir, _ := os.MkdirTemp("/dev/shm", "probe")
	defer os.RemoveAll(dir)
	cc, err := h.NewLocalCache(dir)
	if err != nil {
		panic(err)
	}
	w, err := h.NewWorld(u, cc, nil, h.WorldOpts{Fragments: h.ValidityFragments(), Validation: &dconfig.Validation{}})
	if err != nil {
		panic(err)
	}
	I := func(o string, p int32, f string) h.IntentSpec { return h.IntentSpec{Owner: o, Prio: p, Frag: f} }
	ops := []h.Op{
		{Intents: []h.IntentSpec{I("B", 20, "vh1")}},
		{Intents: []h.IntentSpec{I("C", 30, "vm5")}},
		{Intents: []h.IntentSpec{{Owner: "B", Prio: 20, Delete: true}}},
		{Intents: []h.IntentSpec{I("A", 10, "vg"), I("B", 20, "vh1")}},
	}
	if len(os.Args) > 1 {
		ops = append(ops[:2], ops[3])
	}
	for i, op := range ops {
		if i == 2 {
			log.SetLevel(log.DebugLevel)
		} else {
			log.SetLevel(log.ErrorLevel)
		}
		out := w.Apply(op)
		fmt.Println(op, "rejected:", out.Rejected(), out.Err, out.Rsp)
		r, _ := w.ReadStore(cachepb.Store_CONFIG)
		fmt.Println("  running:", r)
		in, _ := w.ReadIntended()
		fmt.Println("  intended:", in)
	}
}
