package main

import (
	"fmt"
	"os"
	"sync"
	"time"

	"verif/harness/h"
)

func main() {
	h.Quiet()
	u, err := h.LoadUniverse()
	if err != nil {
		panic(err)
	}
	dir, _ := h.ScratchDir("probe")
	defer os.RemoveAll(dir)
	cc, err := h.NewLocalCache(dir)
	if err != nil {
		panic(err)
	}
	frags := h.CoreFragments()
	for _, workers := range []int{1, 4, 16} {
		var wg sync.WaitGroup
		t0 := time.Now()
		var tNew, tApply, tSnap, tClose time.Duration
		var mu sync.Mutex
		for i := 0; i < workers; i++ {
			wg.Add(1)
			go func() {
				defer wg.Done()
				for j := 0; j < 50; j++ {
					a := time.Now()
					w, err := h.NewWorld(u, cc, h.CoreInitials()[1].Leaves, h.WorldOpts{Fragments: frags})
					if err != nil {
						panic(err)
					}
					b := time.Now()
					w.Apply(h.Op{Intents: []h.IntentSpec{{Owner: "A", Prio: 10, Frag: "fa"}}})
					w.Apply(h.Op{Intents: []h.IntentSpec{{Owner: "B", Prio: 20, Frag: "fb"}}})
					c := time.Now()
					w.Snapshot()
					d := time.Now()
					w.Close()
					e := time.Now()
					mu.Lock()
					tNew += b.Sub(a)
					tApply += c.Sub(b)
					tSnap += d.Sub(c)
					tClose += e.Sub(d)
					mu.Unlock()
				}
			}()
		}
		wg.Wait()
		n := time.Duration(workers * 50)
		fmt.Printf("workers=%d wall=%v per-exec: new=%v apply2=%v snap=%v close=%v\n", workers, time.Since(t0), tNew/n, tApply/n, tSnap/n, tClose/n)
	}
}
