package main

import (
	"context"
	"fmt"

	"verif/harness/h"
)

func main() {
	h.Quiet()
	u, err := h.LoadUniverse()
	if err != nil {
		panic(err)
	}
	for _, p := range []h.Path{h.P("sys", "dns"), h.P("refs", "ll"), h.P("if", "tags"), h.P("sys", "hostname")} {
		se, err := u.GetSchema(context.Background(), p.Sdcpb())
		fmt.Println(p, err)
		if ll := se.GetLeaflist(); ll != nil {
			fmt.Println("  min", ll.MinElements, "max", ll.MaxElements)
		}
		if f := se.GetField(); f != nil {
			fmt.Println("  patterns", f.GetType().GetPatterns())
		}
	}
}
