package main

import (
	"fmt"
	"os"

	"verif/harness/h"
)

func main() {
	h.Quiet()
	u, err := h.LoadUniverse()
	if err != nil {
		panic(err)
	}
	dir, _ := h.ScratchDir("probe")
	defer os.RemoveAll(dir)
	cc, err := h.NewLocalCache(dir)
	if err != nil {
		panic(err)
	}
	frags := h.ConstraintFragments()
	for _, f := range append([]string{"ok-refs", "ok-mand"}, h.InvalidFragOrder...) {
		for _, rep := range []bool{false, true} {
			w, err := h.NewWorld(u, cc, nil, h.WorldOpts{Fragments: frags})
			if err != nil {
				panic(err)
			}
			op := h.Op{Intents: []h.IntentSpec{{Owner: "A", Prio: 10, Frag: f}}}
			if rep {
				op = h.Op{Replace: &h.IntentSpec{Owner: "replace", Frag: f}}
			}
			out := w.Apply(op)
			errs := map[string][]string{}
			for n, ir := range out.Rsp.GetIntents() {
				errs[n] = ir.GetErrors()
			}
			fmt.Printf("%-16s replace=%-5v rejected=%-5v err=%v conv=%v intentErrs=%v\n", f, rep, out.Rejected(), out.Err, out.ConvErr, errs)
			w.Close()
		}
	}
}
