package main

import (
	"context"
	"fmt"

	"github.com/sdcio/data-server/pkg/utils"
	sdcpb "github.com/sdcio/sdc-protos/sdcpb"
	schemaClient "github.com/sdcio/data-server/pkg/datastore/clients/schema"
	"verif/harness/h"
)

func main() {
	h.Quiet()
	u, err := h.LoadUniverse()
	if err != nil {
		panic(err)
	}
	scb := schemaClient.NewSchemaClientBound(u.SchemaCfg.GetSchema(), u.Client)
	conv := utils.NewConverter(scb)
	n := &sdcpb.Notification{Update: []*sdcpb.Update{{Path: h.P("if", h.K{"name", "e1"}).Sdcpb(), Value: &sdcpb.TypedValue{Value: &sdcpb.TypedValue_JsonVal{JsonVal: []byte(`{"name":"e1","descr":"j","enabled":false}`)}}}}}
	nn, err := conv.ConvertNotificationTypedValues(context.Background(), n)
	fmt.Println(nn, err)
	n = &sdcpb.Notification{Update: []*sdcpb.Update{{Path: h.P("if", h.K{"name", "e1"}).Sdcpb(), Value: &sdcpb.TypedValue{Value: &sdcpb.TypedValue_JsonVal{JsonVal: []byte(`{"descr":"j"}`)}}}}}
	nn, err = conv.ConvertNotificationTypedValues(context.Background(), n)
	fmt.Println(nn, err)
}
