package main

import (
	"context"
	"fmt"
	"os"

	"github.com/sdcio/cache/proto/cachepb"
	"github.com/sdcio/data-server/pkg/cache"
	dconfig "github.com/sdcio/data-server/pkg/config"
	log "github.com/sirupsen/logrus"
	"verif/harness/h"
)

// ad-hoc experiments go here
func main() {
	u, err := h.LoadUniverse()
	if err != nil {
		panic(err)
	}
	dir, _ := os.MkdirTemp("/dev/shm", "probe")
	defer os.RemoveAll(dir)
	cc, err := h.NewLocalCache(dir)
	if err != nil {
		panic(err)
	}
	fr := h.ValidityFragments()
	e := func(n string) h.PE { return h.PE{Name: "if", Keys: [][2]string{{"name", n}}} }
	L := func(v string, p ...h.PE) h.Leaf { return h.Leaf{P: h.Path(p), V: v} }
	fr["i3"] = &h.Fragment{Name: "i3", Leaves: []h.Leaf{L("one", e("e1"), h.PE{Name: "descr"}), L("two", e("e2"), h.PE{Name: "descr"}), L("three", e("e3"), h.PE{Name: "descr"})}}
	fr["i1"] = &h.Fragment{Name: "i1", Leaves: []h.Leaf{L("one", e("e1"), h.PE{Name: "descr"}), L("e1", h.PE{Name: "refs"}, h.PE{Name: "uplink"})}}
	w, err := h.NewWorld(u, cc, nil, h.WorldOpts{Fragments: fr, Validation: &dconfig.Validation{}})
	if err != nil {
		panic(err)
	}
	log.SetLevel(log.ErrorLevel)
	I := func(o string, p int32, f string) h.IntentSpec { return h.IntentSpec{Owner: o, Prio: p, Frag: f} }
	out := w.Apply(h.Op{Intents: []h.IntentSpec{I("A", 10, "i3")}})
	fmt.Println("setup rejected:", out.Rejected(), out.Err)
	if len(os.Args) > 1 {
		err = w.Raw.Modify(context.Background(), w.Name, &cache.Opts{Store: cachepb.Store_CONFIG}, [][]string{{"if", "e2"}, {"if", "e3"}}, nil)
		fmt.Println("drop:", err)
	}
	out = w.Apply(h.Op{Intents: []h.IntentSpec{I("A", 10, "i1")}})
	fmt.Println("test rejected:", out.Rejected(), out.Err, out.Rsp)
	r, _ := w.ReadStore(cachepb.Store_CONFIG)
	fmt.Println("  running:", r)
	fmt.Println("  device:", w.Dev.Snapshot())
}
