package main

// ad-hoc experiments go here
func main() {}
