package main

import (
	"context"
	"fmt"
	"os"

	"github.com/sdcio/cache/proto/cachepb"
	"github.com/sdcio/data-server/pkg/cache"
	dconfig "github.com/sdcio/data-server/pkg/config"
	log "github.com/sirupsen/logrus"
	"verif/harness/h"
)

// ad-hoc experiments go here
func main() {
	u, err := h.LoadUniverse()
	if err != nil {
		panic(err)
	}
	dir, _ := os.MkdirTemp("/dev/shm", "probe")
	defer os.RemoveAll(dir)
	cc, err := h.NewLocalCache(dir)
	if err != nil {
		panic(err)
	}
	fr := h.ChoiceFragments()
	fr["cpv"] = &h.Fragment{Name: "cpv", Leaves: []h.Leaf{{P: h.Path{{Name: "mode"}, {Name: "pc"}}, Empty: true}, {P: h.Path{{Name: "mode"}, {Name: "pc"}, {Name: "pv"}}, V: "z"}}}
	w, err := h.NewWorld(u, cc, nil, h.WorldOpts{Fragments: fr, Validation: &dconfig.Validation{}, RenderAll: true})
	if err != nil {
		panic(err)
	}
	log.SetLevel(log.ErrorLevel)
	ops := []h.Op{
		{Intents: []h.IntentSpec{{Owner: "B", Prio: 20, Frag: "ca1"}}},
		{Intents: []h.IntentSpec{{Owner: "A", Prio: 10, Frag: "cpv"}}},
		{Intents: []h.IntentSpec{{Owner: "A", Prio: 25, Frag: "cpc"}}},
	}
	for i, op := range ops {
		if i == 2 && len(os.Args) > 1 {
			log.SetLevel(log.DebugLevel)
		}
		out := w.Apply(op)
		fmt.Println(op, "rejected:", out.Rejected(), out.Err)
		c := w.Dev.Calls[len(w.Dev.Calls)-1]
		fmt.Println("  proto upd:", c.Updates, "del:", c.Deletes)
		for o, x := range c.R.XML {
			fmt.Println("  xml", o, x)
			break
		}
		fmt.Println("  json:", c.R.JSON)
		fmt.Println("  device:", w.Dev.Snapshot())
	}
	_ = context.Background
	_ = cache.Opts{}
	_ = cachepb.Store_CONFIG
}
