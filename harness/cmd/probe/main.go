package main

import (
	"context"
	"fmt"
	"os"

	"github.com/sdcio/cache/proto/cachepb"
	"github.com/sdcio/data-server/pkg/cache"
	dconfig "github.com/sdcio/data-server/pkg/config"
	log "github.com/sirupsen/logrus"
	"verif/harness/h"
)

// ad-hoc experiments go here
func main() {
	u, err := h.LoadUniverse()
	if err != nil {
		panic(err)
	}
	dir, _ := os.MkdirTemp("/dev/shm", "probe")
	defer os.RemoveAll(dir)
	cc, err := h.NewLocalCache(dir)
	if err != nil {
		panic(err)
	}
	fr := h.ValidityFragments()
	w, err := h.NewWorld(u, cc, nil, h.WorldOpts{Fragments: fr, Validation: &dconfig.Validation{}})
	if err != nil {
		panic(err)
	}
	log.SetLevel(log.ErrorLevel)
	if len(os.Args) > 2 {
		log.SetLevel(log.DebugLevel)
	}
	out := w.Apply(h.Op{Intents: []h.IntentSpec{{Owner: "A", Prio: 10, Frag: os.Args[1]}}})
	fmt.Println("rejected:", out.Rejected(), out.Err, out.Rsp)
	_ = context.Background
	_ = cache.Opts{}
	_ = cachepb.Store_CONFIG
}
