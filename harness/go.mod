module verif/harness

go 1.23.4

require (
	github.com/beevik/etree v1.5.0
	github.com/openconfig/gnmi v0.13.0
	github.com/scrapli/scrapligo v1.3.3
	github.com/sdcio/cache v0.0.35
	github.com/sdcio/data-server v0.0.0
	github.com/sdcio/schema-server v0.0.30
	github.com/sdcio/sdc-protos v0.0.39
	github.com/sirupsen/logrus v1.9.3
	google.golang.org/grpc v1.70.0
	google.golang.org/protobuf v1.36.5
)

require (
	cloud.google.com/go/compute/metadata v0.5.2 // indirect
	github.com/AlekSi/pointer v1.2.0 // indirect
	github.com/beorn7/perks v1.0.1 // indirect
	github.com/bufbuild/protocompile v0.14.1 // indirect
	github.com/cespare/xxhash/v2 v2.3.0 // indirect
	github.com/creack/pty v1.1.24 // indirect
	github.com/davecgh/go-spew v1.1.2-0.20180830191138-d8f796af33cc // indirect
	github.com/dgraph-io/badger/v4 v4.5.0 // indirect
	github.com/dgraph-io/ristretto/v2 v2.0.0 // indirect
	github.com/dustin/go-humanize v1.0.1 // indirect
	github.com/emicklei/go-restful/v3 v3.12.1 // indirect
	github.com/fsnotify/fsnotify v1.8.0 // indirect
	github.com/fxamacker/cbor/v2 v2.7.0 // indirect
	github.com/go-logr/logr v1.4.2 // indirect
	github.com/go-openapi/jsonpointer v0.21.0 // indirect
	github.com/go-openapi/jsonreference v0.21.0 // indirect
	github.com/go-openapi/swag v0.23.0 // indirect
	github.com/gogo/protobuf v1.3.2 // indirect
	github.com/golang/groupcache v0.0.0-20210331224755-41bb18bfe9da // indirect
	github.com/golang/protobuf v1.5.4 // indirect
	github.com/google/flatbuffers v24.3.25+incompatible // indirect
	github.com/google/gnostic-models v0.6.9 // indirect
	github.com/google/go-cmp v0.6.0 // indirect
	github.com/google/gofuzz v1.2.0 // indirect
	github.com/google/uuid v1.6.0 // indirect
	github.com/gorilla/mux v1.8.1 // indirect
	github.com/grpc-ecosystem/go-grpc-middleware v1.4.0 // indirect
	github.com/grpc-ecosystem/go-grpc-prometheus v1.2.0 // indirect
	github.com/jellydator/ttlcache/v3 v3.3.0 // indirect
	github.com/jhump/protoreflect v1.17.0 // indirect
	github.com/josharian/intern v1.0.0 // indirect
	github.com/json-iterator/go v1.1.12 // indirect
	github.com/klauspost/compress v1.17.11 // indirect
	github.com/mailru/easyjson v0.7.7 // indirect
	github.com/mitchellh/go-homedir v1.1.0 // indirect
	github.com/modern-go/concurrent v0.0.0-20180306012644-bacd9c7ef1dd // indirect
	github.com/modern-go/reflect2 v1.0.2 // indirect
	github.com/munnerz/goautoneg v0.0.0-20191010083416-a7dc8b61c822 // indirect
	github.com/openconfig/gnmic/pkg/api v0.1.8 // indirect
	github.com/openconfig/gnmic/pkg/target v0.1.4 // indirect
	github.com/openconfig/gnmic/pkg/types v0.1.2 // indirect
	github.com/openconfig/gnmic/pkg/utils v0.1.1 // indirect
	github.com/openconfig/goyang v1.6.0 // indirect
	github.com/openconfig/grpctunnel v0.1.0 // indirect
	github.com/pkg/errors v0.9.1 // indirect
	github.com/prometheus/client_golang v1.20.5 // indirect
	github.com/prometheus/client_model v0.6.1 // indirect
	github.com/prometheus/common v0.60.1 // indirect
	github.com/prometheus/procfs v0.15.1 // indirect
	github.com/rs/xid v1.6.0 // indirect
	github.com/sdcio/yang-parser v0.0.10 // indirect
	github.com/sirikothe/gotextfsm v1.0.1-0.20200816110946-6aa2cfd355e4 // indirect
	github.com/x448/float16 v0.8.4 // indirect
	go.opencensus.io v0.24.0 // indirect
	golang.org/x/crypto v0.32.0 // indirect
	golang.org/x/net v0.34.0 // indirect
	golang.org/x/oauth2 v0.24.0 // indirect
	golang.org/x/sync v0.10.0 // indirect
	golang.org/x/sys v0.29.0 // indirect
	golang.org/x/term v0.28.0 // indirect
	golang.org/x/text v0.21.0 // indirect
	golang.org/x/time v0.8.0 // indirect
	google.golang.org/genproto/googleapis/rpc v0.0.0-20250106144421-5f5ef82da422 // indirect
	gopkg.in/evanphx/json-patch.v4 v4.12.0 // indirect
	gopkg.in/inf.v0 v0.9.1 // indirect
	gopkg.in/yaml.v2 v2.4.0 // indirect
	gopkg.in/yaml.v3 v3.0.1 // indirect
	k8s.io/api v0.32.0 // indirect
	k8s.io/apimachinery v0.32.0 // indirect
	k8s.io/client-go v0.32.0 // indirect
	k8s.io/klog/v2 v2.130.1 // indirect
	k8s.io/kube-openapi v0.0.0-20241127205056-99599406b04f // indirect
	k8s.io/utils v0.0.0-20241104163129-6fe5fd82f078 // indirect
	sigs.k8s.io/controller-runtime v0.20.1 // indirect
	sigs.k8s.io/json v0.0.0-20241014173422-cfa47c3a1cc8 // indirect
	sigs.k8s.io/structured-merge-diff/v4 v4.4.3 // indirect
	sigs.k8s.io/yaml v1.4.0 // indirect
)

replace github.com/sdcio/data-server => /repo

replace github.com/openconfig/goyang v1.6.0 => github.com/sdcio/goyang v1.6.0-2
