package h

import (
	"context"
	"fmt"
	"os"
	"sort"
	"strings"
	"sync"

	"github.com/sdcio/cache/proto/cachepb"
	"github.com/sdcio/data-server/pkg/cache"
	"github.com/sdcio/data-server/pkg/utils"
	sdcpb "github.com/sdcio/sdc-protos/sdcpb"
	"google.golang.org/grpc/metadata"
	"google.golang.org/protobuf/proto"
)

// C15: deviation reports are exact. Bounded-exhaustive enumeration of store contents.

// devStream records what one WatchDeviations client receives.
type devStream struct {
	mu   sync.Mutex
	msgs []*sdcpb.WatchDeviationResponse
	ctx  context.Context
}

func (d *devStream) Send(m *sdcpb.WatchDeviationResponse) error {
	d.mu.Lock()
	defer d.mu.Unlock()
	d.msgs = append(d.msgs, proto.Clone(m).(*sdcpb.WatchDeviationResponse))
	return nil
}
func (d *devStream) SetHeader(metadata.MD) error  { return nil }
func (d *devStream) SendHeader(metadata.MD) error { return nil }
func (d *devStream) SetTrailer(metadata.MD)       {}
func (d *devStream) Context() context.Context {
	if d.ctx != nil {
		return d.ctx
	}
	return context.Background()
}
func (d *devStream) SendMsg(m any) error { return nil }
func (d *devStream) RecvMsg(m any) error { return nil }

type c15Leaf struct {
	Name string
	P    Path
	V1   Leaf
	V2   Leaf
	// the same two values as a device reports them when it sends native typed values (gNMI proto encoding), if
	// that differs from the string form
	D1, D2 *sdcpb.TypedValue
}

func c15Leaves() []c15Leaf {
	mk := func(name string, v1, v2 Leaf) c15Leaf { return c15Leaf{Name: name, P: v1.P, V1: v1, V2: v2} }
	uintTV := func(v uint64) *sdcpb.TypedValue { return &sdcpb.TypedValue{Value: &sdcpb.TypedValue_UintVal{UintVal: v}} }
	boolTV := func(v bool) *sdcpb.TypedValue { return &sdcpb.TypedValue{Value: &sdcpb.TypedValue_BoolVal{BoolVal: v}} }
	dev := func(l c15Leaf, d1, d2 *sdcpb.TypedValue) c15Leaf { l.D1, l.D2 = d1, d2; return l }
	ls := []c15Leaf{
		mk("string", leaf("r1", "sys", "hostname"), leaf("r2", "sys", "hostname")),
		mk("uint16", leaf("1500", "sys", "mtu"), leaf("9000", "sys", "mtu")),
		mk("list-leaf", leaf("one", "if", e1, "descr"), leaf("two", "if", e1, "descr")),
		mk("bool", leaf("true", "if", e1, "enabled"), leaf("false", "if", e1, "enabled")),
		mk("enum", leaf("1g", "if", e10, "speed"), leaf("10g", "if", e10, "speed")),
		mk("leaf-list", leafLL([]string{"a", "b"}, "sys", "dns"), leafLL([]string{"b", "c"}, "sys", "dns")),
		mk("leaf-list-prefix", leafLL([]string{"a", "b"}, "if", e1, "tags"), leafLL([]string{"a", "b", "c"}, "if", e1, "tags")),
		mk("decimal64", leaf("1.5", "types", "d1"), leaf("-2.5", "types", "d1")),
		mk("identityref", leaf("tcp", "types", "idr"), leaf("udp", "types", "idr")),
		mk("leafref-to-uint", leaf("1500", "refs", "mtu-ref"), leaf("9000", "refs", "mtu-ref")),
		mk("uint64", leaf("4294967296", "types", "u64"), leaf("9223372036854775807", "types", "u64")), // values above 2^63 are C12's business
	}
	for i := range ls {
		switch ls[i].Name {
		case "uint16", "leafref-to-uint":
			ls[i] = dev(ls[i], uintTV(1500), uintTV(9000))
		case "bool":
			ls[i] = dev(ls[i], boolTV(true), boolTV(false))
		case "uint64":
			ls[i] = dev(ls[i], uintTV(4294967296), uintTV(9223372036854775807))
		}
	}
	return ls
}

var c15Owners = []struct {
	Name string
	Prio int32
}{{"A", 10}, {"B", 20}, {"C", 30}}

// typed converts the leaf the way the request pipeline does before storing it.
func (u *Universe) typed(l Leaf) (*sdcpb.TypedValue, []byte, error) {
	se, err := u.GetSchema(context.Background(), l.P.Sdcpb())
	if err != nil {
		return nil, nil, err
	}
	tv, err := utils.ConvertTypedValueToYANGType(se, l.Value())
	if err != nil {
		return nil, nil, err
	}
	b, err := proto.Marshal(tv)
	return tv, b, err
}

// typedIntent types a value the way the request pipeline does before it stores an intent, typedRunning the way the
// sync pipeline does before it stores what the device reported: the two differ for some types (a leafref to a
// uint16 is kept as a string by the former and converted to the target type by the latter), and the deviation
// cycle has to see through that.
var (
	c15TypeMu    sync.Mutex
	c15TypeCache = map[string][]byte{}
)

func c15TypedIntent(w *World, l Leaf) ([]byte, error) {
	k := "I|" + l.P.String() + "|" + l.CanonValue()
	c15TypeMu.Lock()
	b, ok := c15TypeCache[k]
	c15TypeMu.Unlock()
	if ok {
		return b, nil
	}
	ti, err := w.DS.SdcpbTransactionIntentToInternalTI(context.Background(), &sdcpb.TransactionIntent{Intent: "typing", Priority: 1,
		Update: []*sdcpb.Update{{Path: l.P.Sdcpb(), Value: l.Value()}}})
	if err != nil {
		return nil, err
	}
	want := strings.Join(utils.ToStrings(l.P.Sdcpb(), false, false), "\x00")
	for _, up := range ti.GetUpdates() {
		if strings.Join(up.GetPath(), "\x00") == want {
			b = up.Bytes()
			c15TypeMu.Lock()
			c15TypeCache[k] = b
			c15TypeMu.Unlock()
			return b, nil
		}
	}
	return nil, fmt.Errorf("request pipeline produced no update for %s", l.P)
}

func c15TypedRunning(w *World, l Leaf) ([]byte, error) {
	k := fmt.Sprintf("R|%s|%s|%T", l.P.String(), l.CanonValue(), l.Value().GetValue())
	c15TypeMu.Lock()
	b, ok := c15TypeCache[k]
	c15TypeMu.Unlock()
	if ok {
		return b, nil
	}
	conv := utils.NewConverter(w.DS.VerifSchemaClient())
	n, err := conv.ConvertNotificationTypedValues(context.Background(), &sdcpb.Notification{Update: []*sdcpb.Update{{Path: l.P.Sdcpb(), Value: l.Value()}}})
	if err != nil {
		return nil, err
	}
	if len(n.GetUpdate()) != 1 {
		return nil, fmt.Errorf("sync conversion produced %d updates for %s", len(n.GetUpdate()), l.P)
	}
	b, err = proto.Marshal(n.GetUpdate()[0].GetValue())
	if err != nil {
		return nil, err
	}
	c15TypeMu.Lock()
	c15TypeCache[k] = b
	c15TypeMu.Unlock()
	return b, nil
}

type c15Cell struct {
	leaf    c15Leaf
	running int    // 0 absent, 1 v1, 2 v2
	intents [3]int // per owner
	rep     int // representation of the running value: 0 as sync stores a value the device sent as text, 1 as a transaction writes it back (intent typing), 2 as sync stores a native typed value of the device
}

func (c c15Cell) String() string {
	wb := map[int]string{0: "", 1: "(written back)", 2: "(device typed)"}[c.rep]
	return fmt.Sprintf("%s{run=%d%s A=%d B=%d C=%d}", c.leaf.Name, c.running, wb, c.intents[0], c.intents[1], c.intents[2])
}

func devKey(reason, intent, path, expected, current string) string {
	return fmt.Sprintf("%s|%s|%s|exp=%s|cur=%s", reason, intent, path, expected, current)
}

// expectedDeviations is the reference model for one cell.
func expectedDeviations(c c15Cell) []string {
	val := func(i int) string {
		if i == 1 {
			return c.leaf.V1.CanonValue()
		}
		return c.leaf.V2.CanonValue()
	}
	p := c.leaf.P.String()
	var r []string
	ruling := -1
	for i, v := range c.intents {
		if v != 0 {
			ruling = i
			break
		}
	}
	if ruling < 0 {
		if c.running != 0 {
			r = append(r, devKey("UNHANDLED", "", p, "<nil>", val(c.running)))
		}
		return r
	}
	rv := val(c.intents[ruling])
	cur := "<nil>"
	if c.running != 0 {
		cur = val(c.running)
	}
	if c.running == 0 || val(c.running) != rv {
		r = append(r, devKey("NOT_APPLIED", c15Owners[ruling].Name, p, rv, cur))
	}
	for i := ruling + 1; i < 3; i++ {
		if c.intents[i] != 0 && val(c.intents[i]) != rv {
			r = append(r, devKey("OVERRULED", c15Owners[i].Name, p, val(c.intents[i]), rv))
		}
	}
	return r
}

func runC15() int {
	u, err := LoadUniverse()
	if err != nil {
		return fail(err)
	}
	rep := NewReporter("C15", "exploration")
	rep.Assumptions = []string{
		"store contents are written directly into the CONFIG and INTENDED stores of the real cache (drift must be expressible), intent values typed by the real request pipeline (SdcpbTransactionIntentToInternalTI), running values typed by the real sync conversion (ConvertNotificationTypedValues) and, as a second variant, the way a transaction writes them back (intent typing); one deviation cycle per content through the VerifRunDeviationCycle hook and a recording stream",
		"OVERRULED messages are compared as (intent, path, the intent's own value, the ruling value); NOT_APPLIED as (ruling intent, path, ruling value, running value or none)",
	}
	leaves := c15Leaves()
	var cells [][]c15Cell
	// every single leaf x 81 combinations
	for _, l := range leaves {
		for r := 0; r < 3; r++ {
			for a := 0; a < 3; a++ {
				for b := 0; b < 3; b++ {
					for c := 0; c < 3; c++ {
						cells = append(cells, []c15Cell{{l, r, [3]int{a, b, c}, 0}})
						if r != 0 {
							cells = append(cells, []c15Cell{{l, r, [3]int{a, b, c}, 1}})
							if l.D1 != nil {
								cells = append(cells, []c15Cell{{l, r, [3]int{a, b, c}, 2}})
							}
						}
					}
				}
			}
		}
	}
	// pairs of paths: all 81 x 81 (thorough) / a 27 x 27 slice (quick: owner C absent on the first, owner A absent on the second)
	pairs := [][2]int{{0, 2}, {1, 5}}
	if Tier() == "thorough" {
		pairs = append(pairs, [2]int{2, 3}, [2]int{4, 6})
	}
	for _, pr := range pairs {
		for x := 0; x < 81; x++ {
			for y := 0; y < 81; y++ {
				cx := c15Cell{leaves[pr[0]], x % 3, [3]int{x / 3 % 3, x / 9 % 3, x / 27}, 0}
				cy := c15Cell{leaves[pr[1]], y % 3, [3]int{y / 3 % 3, y / 9 % 3, y / 27}, 0}
				if Tier() != "thorough" && (cx.intents[2] != 0 || cy.intents[0] != 0) {
					continue
				}
				cells = append(cells, []c15Cell{cx, cy})
			}
		}
	}
	var mu sync.Mutex
	evals := 0
	distinct := map[string]bool{}
	var samples []any
	ch := make(chan []c15Cell, 256)
	var wg sync.WaitGroup
	for i := 0; i < 16; i++ {
		wg.Add(1)
		go func() {
			defer wg.Done()
			wc := NewWorkerCache()
			defer wc.Close()
			for content := range ch {
				cc, err := wc.Get()
				if err != nil {
					fmt.Fprintln(os.Stderr, err)
					continue
				}
				w, err := NewWorld(u, cc, nil, WorldOpts{})
				if err != nil {
					fmt.Fprintln(os.Stderr, err)
					continue
				}
				ctx := context.Background()
				var names []string
				want := map[string]int{}
				bad := false
				for _, c := range content {
					names = append(names, c.String())
					pick := func(i int) Leaf {
						if i == 1 {
							return c.leaf.V1
						}
						return c.leaf.V2
					}
					if c.running != 0 {
						b, err := c15TypedRunning(w, pick(c.running))
						switch c.rep {
						case 1:
							b, err = c15TypedIntent(w, pick(c.running))
						case 2:
							l := pick(c.running)
							l.TV, l.Canon = c.leaf.D1, l.CanonValue()
							if c.running == 2 {
								l.TV = c.leaf.D2
							}
							b, err = c15TypedRunning(w, l)
						}
						if err != nil {
							bad = true
							break
						}
						_ = w.Raw.Modify(ctx, w.Name, &cache.Opts{Store: cachepb.Store_CONFIG}, nil,
							[]*cache.Update{cache.NewUpdate(utils.ToStrings(c.leaf.P.Sdcpb(), false, false), b, 0, "", 0)})
					}
					for oi, v := range c.intents {
						if v == 0 {
							continue
						}
						b, err := c15TypedIntent(w, pick(v))
						if err != nil {
							bad = true
							break
						}
						_ = w.Raw.Modify(ctx, w.Name, &cache.Opts{Store: cachepb.Store_INTENDED, Owner: c15Owners[oi].Name, Priority: c15Owners[oi].Prio}, nil,
							[]*cache.Update{cache.NewUpdate(utils.ToStrings(c.leaf.P.Sdcpb(), false, false), b, c15Owners[oi].Prio, c15Owners[oi].Name, 0)})
					}
					for _, k := range expectedDeviations(c) {
						want[k]++
					}
				}
				if bad {
					w.Close()
					rep.Add(&Violation{Clause: "harness", Sig: "typed-conversion-failed:" + names[0], Detail: "cannot type a universe value", Engine: "E3-inputs"})
					continue
				}
				st := &devStream{}
				pan := ""
				func() {
					defer func() {
						if r := recover(); r != nil {
							pan = fmt.Sprintf("%v", r)
						}
					}()
					w.DS.VerifRunDeviationCycle(ctx, map[string]sdcpb.DataServer_WatchDeviationsServer{"client1": st})
				}()
				w.Close()
				cas := map[string]any{"content": names}
				classes := []string{}
				for _, c := range content {
					classes = append(classes, c.leaf.Name)
				}
				cls := strings.Join(classes, "+")
				add := func(clause, where, detail string) {
					rep.Add(&Violation{Clause: clause, Sig: clause + ":" + where, Detail: detail, Case: cas, Engine: "E3-inputs"})
				}
				if pan != "" {
					add("panic", cls, "deviation cycle panicked: "+pan)
					continue
				}
				got := map[string]int{}
				starts, ends := 0, 0
				order := []string{}
				for _, m := range st.msgs {
					switch m.GetEvent() {
					case sdcpb.DeviationEvent_START:
						starts++
						order = append(order, "START")
					case sdcpb.DeviationEvent_END:
						ends++
						order = append(order, "END")
					default:
						order = append(order, "U")
						exp, cur := "<nil>", "<nil>"
						if m.GetExpectedValue() != nil {
							exp = CanonTV(m.GetExpectedValue())
						}
						if m.GetCurrentValue() != nil {
							cur = CanonTV(m.GetCurrentValue())
						}
						got[devKey(m.GetReason().String(), m.GetIntent(), CanonPath(m.GetPath()), exp, cur)]++
					}
				}
				if starts != 1 || ends != 1 || len(order) == 0 || order[0] != "START" || order[len(order)-1] != "END" {
					add("bracketing", cls, fmt.Sprintf("cycle is not bracketed by exactly one START and one END: %v", order))
				}
				for k, n := range want {
					if got[k] < n {
						reason := strings.SplitN(k, "|", 2)[0]
						add("missing-"+reason, cls+":"+missingShape(content), fmt.Sprintf("expected deviation %s was not reported (reported: %v)", k, keysOf(got)))
					}
				}
				for k, n := range got {
					if want[k] < n {
						reason := strings.SplitN(k, "|", 2)[0]
						add("spurious-"+reason, cls+":"+missingShape(content), fmt.Sprintf("reported %s (x%d) which the store contents do not justify (expected: %v)", k, n, keysOf(want)))
					}
				}
				mu.Lock()
				evals++
				distinct[fmt.Sprintf("%s|%v", cls, keysOf(want))] = true
				if len(samples) < 6 && len(want) > 1 {
					samples = append(samples, map[string]any{"content": names, "expected": keysOf(want)})
				}
				mu.Unlock()
			}
		}()
	}
	for _, c := range cells {
		ch <- c
	}
	close(ch)
	wg.Wait()
	return rep.Finish(map[string]any{
		"evaluations":         evals,
		"distinct_nontrivial": len(distinct),
		"rule":                "all 81 combinations (running in {absent,v1,v2} x intents A@10,B@20,C@30 each in {absent,v1,v2}) for each of 9 leaf types, plus pairs of paths (81x81 per pair in the thorough tier, a 27x27 slice in the quick tier); one deviation cycle per content; a case is distinct by (leaf classes, expected deviation multiset)",
		"samples":             samples,
		"leaf_classes":        len(leaves),
		"exhaustive":          true,
	})
}

// missingShape classifies the content for signatures: is running present, how many intents.
func missingShape(content []c15Cell) string {
	var parts []string
	for _, c := range content {
		n := 0
		for _, v := range c.intents {
			if v != 0 {
				n++
			}
		}
		r := "run"
		if c.running == 0 {
			r = "norun"
		}
		parts = append(parts, fmt.Sprintf("%s/%dint", r, n))
	}
	return strings.Join(parts, ",")
}

func keysOf(m map[string]int) []string {
	ks := make([]string, 0, len(m))
	for k, n := range m {
		ks = append(ks, fmt.Sprintf("%s x%d", k, n))
	}
	sort.Strings(ks)
	return ks
}

func init() {
	Checks["C15"] = func([]string) int { return runC15() }
}
