package h

import (
	"fmt"
	"os"
	"time"

	"github.com/sdcio/data-server/pkg/datastore/target"
)

// Checks maps property ids to their drivers; each returns the process exit code.
var Checks = map[string]func(args []string) int{}

// Tier returns "quick" or "thorough".
func Tier() string {
	if os.Getenv("VERIF_TIER") == "thorough" {
		return "thorough"
	}
	return "quick"
}

// setupE1 loads the universe and opens a scratch cache; the returned func cleans up.
func setupE1() (*Universe, func(), *E1, error) {
	u, err := LoadUniverse()
	if err != nil {
		return nil, nil, nil, err
	}
	dir, err := ScratchDir("e1")
	if err != nil {
		return nil, nil, nil, err
	}
	cc, err := NewLocalCache(dir)
	if err != nil {
		os.RemoveAll(dir)
		return nil, nil, nil, err
	}
	e := &E1{U: u, Cache: cc}
	return u, func() { cc.Close(); os.RemoveAll(dir) }, e, nil
}

func fail(err error) int {
	fmt.Fprintf(os.Stderr, "harness error: %v\n", err)
	return 2
}

func deadline(quick, thorough time.Duration) time.Time {
	if Tier() == "thorough" {
		return time.Now().Add(thorough)
	}
	return time.Now().Add(quick)
}

var commonAssumptions = []string{
	"the universe schema /verif/schema is loaded through the real schema-server parser and memstore; properties are decided for this schema only",
	"the cache is the real github.com/sdcio/cache local cache (badger) in a scratch directory; the device is a recording target.Target that applies proto deletes then proto updates",
	"Go map iteration order inside the implementation is not enumerated; executions are deterministic apart from it",
}

// e1Config describes how a property plugs into the history search.
type e1Config struct {
	checker       Checker
	depth         [2]int // quick, thorough
	renderAll     bool
	probes        func(m *Model) []Op
	frags         func() (map[string]*Fragment, []string) // fragments and the names used for the alphabet
	multi         func() []Op
	initials      func() []*Initial
	orphan        bool
	validation    func() *WorldOptsValidation
	deadline      [2]time.Duration
	extraAssume   []string
	deep          *deepPhase // optional second phase: reduced alphabet, deeper
	noPrune       bool
	extra         []*extraPhase // further searches with their own checker / southbound target
}

// extraPhase is an additional history search of a check with another checker and southbound target.
type extraPhase struct {
	name       string
	checker    Checker
	names      []string
	depth      [2]int
	initials   func() []*Initial
	makeTarget func(w *World) target.Target
	opts       func(o *WorldOpts) // adjusts the world options of the phase
	probes     bool               // the phase also runs the check's probe operations
}

// deepPhase is a second search with a reduced alphabet and a larger depth bound.
type deepPhase struct {
	names    []string
	depth    [2]int
	multi    func() []Op
	initials func() []*Initial
}

type WorldOptsValidation struct{}

var e1Configs = map[string]*e1Config{}

func coreFrags() (map[string]*Fragment, []string) {
	return mergeFrags(CoreFragments(), MultiKeyFragments()), append(append([]string{}, CoreFragOrder...), MultiKeyFragOrder...)
}

// smallFrags is the reduced alphabet used by probe-heavy checks.
func smallFrags() (map[string]*Fragment, []string) {
	return mergeFrags(CoreFragments(), MultiKeyFragments()), []string{"fa", "fb", "fc", "fd", "fg", "fm", "mk4", "mk5"}
}

// configure fills an E1 for the property.
func configureE1(prop string, e *E1) error {
	c, ok := e1Configs[prop]
	if !ok {
		return fmt.Errorf("no E1 configuration for %s", prop)
	}
	e.Checker = c.checker
	e.Initials = CoreInitials()
	if c.initials != nil {
		e.Initials = c.initials()
	}
	fr := coreFrags
	if c.frags != nil {
		fr = c.frags
	}
	var names []string
	e.Frags, names = fr()
	multi := CoreMulti()
	if c.multi != nil {
		multi = c.multi()
	}
	e.Alphabet = BuildAlphabet(names, multi, c.orphan)
	e.Probes = c.probes
	e.NoPrune = c.noPrune
	e.Opts = WorldOpts{RenderAll: c.renderAll}
	e.Depth = c.depth[0]
	dl := c.deadline[0]
	if Tier() == "thorough" {
		e.Depth = c.depth[1]
		dl = c.deadline[1]
	}
	if dl == 0 {
		dl = 3 * time.Hour
	}
	e.Deadline = time.Now().Add(dl)
	return nil
}

func runE1(prop string) int {
	_, cleanup, e, err := setupE1()
	if err != nil {
		return fail(err)
	}
	defer cleanup()
	rep := NewReporter(prop, "model_checking")
	cfg := e1Configs[prop]
	rep.Assumptions = append(append([]string{}, commonAssumptions...), cfg.extraAssume...)
	e.Rep = rep
	if err := configureE1(prop, e); err != nil {
		return fail(err)
	}
	if err := e.Run(); err != nil {
		return fail(err)
	}
	cov := e.Coverage()
	if cfg.deep != nil {
		e2 := &E1{U: e.U, Cache: e.Cache, Rep: rep}
		if err := configureE1(prop, e2); err != nil {
			return fail(err)
		}
		multi := []Op{}
		if cfg.deep.multi != nil {
			multi = cfg.deep.multi()
		}
		e2.Alphabet = BuildAlphabet(cfg.deep.names, multi, false)
		if cfg.deep.initials != nil {
			e2.Initials = cfg.deep.initials()
		}
		e2.Depth = cfg.deep.depth[0]
		if Tier() == "thorough" {
			e2.Depth = cfg.deep.depth[1]
		}
		if err := e2.Run(); err != nil {
			return fail(err)
		}
		c2 := e2.Coverage()
		cov["deep_phase"] = map[string]any{"alphabet_fragments": cfg.deep.names, "alphabet_size": c2["alphabet_size"], "states": c2["states"], "transitions": c2["transitions"],
			"probe_transitions": c2["probe_transitions"], "max_depth_completed": c2["max_depth_completed"], "depth_bound": c2["depth_bound"], "exhaustive": c2["exhaustive"], "samples": c2["samples"]}
		cov["states"] = e.States + e2.States
		cov["transitions"] = e.Transitions + e.ProbeTrans + e2.Transitions + e2.ProbeTrans
		cov["traces_validated_against_impl"] = cov["transitions"]
		cov["exhaustive"] = cov["exhaustive"].(bool) && c2["exhaustive"].(bool)
	}
	for _, x := range cfg.extra {
		e3 := &E1{U: e.U, Cache: e.Cache, Rep: rep}
		if err := configureE1(prop, e3); err != nil {
			return fail(err)
		}
		e3.Checker = x.checker
		e3.Alphabet = BuildAlphabet(x.names, nil, true)
		if x.initials != nil {
			e3.Initials = x.initials()
		}
		e3.Depth = x.depth[0]
		if Tier() == "thorough" {
			e3.Depth = x.depth[1]
		}
		e3.Phase = x.name
		e3.Opts.MakeTarget = x.makeTarget
		if x.opts != nil {
			x.opts(&e3.Opts)
		}
		if !x.probes {
			e3.Probes = nil
		}
		if err := e3.Run(); err != nil {
			return fail(err)
		}
		c3 := e3.Coverage()
		cov["phase_"+x.name] = map[string]any{"alphabet_fragments": x.names, "states": c3["states"], "transitions": c3["transitions"], "max_depth_completed": c3["max_depth_completed"], "depth_bound": c3["depth_bound"], "exhaustive": c3["exhaustive"]}
		cov["states"] = toInt64(cov["states"]) + int64(e3.States)
		cov["transitions"] = toInt64(cov["transitions"]) + int64(e3.Transitions) + int64(e3.ProbeTrans)
		cov["traces_validated_against_impl"] = cov["transitions"]
		cov["exhaustive"] = cov["exhaustive"].(bool) && c3["exhaustive"].(bool)
	}
	return rep.Finish(cov)
}

func registerE1(prop string, c *e1Config) {
	e1Configs[prop] = c
	Checks[prop] = func([]string) int { return runE1(prop) }
}

func init() {
	deepInit := func() []*Initial { return CoreInitials()[:2] }
	deepMulti := func() []Op { return CoreMulti()[:2] }
	registerE1("C01", &e1Config{checker: C01Checker{}, depth: [2]int{2, 3}, orphan: true,
		deep: &deepPhase{names: DeepFragOrder, depth: [2]int{3, 4}, initials: deepInit, multi: deepMulti}})
	registerE1("C02", &e1Config{checker: C02Checker{}, depth: [2]int{2, 3}, orphan: true,
		deep: &deepPhase{names: DeepFragOrder, depth: [2]int{3, 4}, initials: deepInit, multi: deepMulti}})
	registerE1("C03", &e1Config{checker: C03Checker{}, depth: [2]int{1, 2}, probes: C03Probes, frags: c03Frags,
		extraAssume: []string{"the request menu (probes) is applied from every state reached with at most depth_bound operations; invalid fragments violate one constraint class each, independent of the state"}})
	{
		// C05's alphabet also holds a transaction that is valid with a warning only
		c05Frags := func() (map[string]*Fragment, []string) {
			fr, names := smallFrags()
			return fr, append(append([]string{}, names...), "fw")
		}
		_, names := c05Frags()
		alpha := BuildAlphabet(names, CoreMulti(), false)
		registerE1("C05", &e1Config{checker: C05Checker{}, depth: [2]int{1, 2}, probes: c05Probes(alpha), frags: c05Frags,
			extraAssume: []string{"timer expiry is driven with a real 1 ms transaction timeout and a 30 s watchdog on the release of the transaction slot (single active thread, no schedule enumeration here; interleavings are C16)",
				"unmanaged device leaves removed by an aggregated list-entry delete are not required to come back (the property speaks of paths the transaction touched on behalf of intents)"}})
	}
	registerE1("C08", &e1Config{checker: C08Checker{}, depth: [2]int{2, 3}, frags: choiceFrags, multi: choiceMulti, initials: choiceInitials,
		deep: &deepPhase{names: []string{"ca1", "cab", "cb1", "cpc", "cpvo"}, depth: [2]int{3, 4}, initials: func() []*Initial { return choiceInitials()[:1] }}})
	// C09's alphabet also holds two cases of a choice: a re-applied intent next to a shadowed intent in the other case
	c09Frags := func() (map[string]*Fragment, []string) {
		fr, names := smallFrags()
		return mergeFrags(fr, ChoiceFragments()), append(append([]string{}, names...), "ca1", "cb1")
	}
	registerE1("C09", &e1Config{checker: C09Checker{}, depth: [2]int{2, 3}, orphan: true, renderAll: true, probes: C09Probes, frags: c09Frags,
		// the same datum in another encoding: the intents' typed values carry a timestamp and the running store is
		// rewritten (as by a device sync) before every re-submission
		extra: []*extraPhase{{name: "resynced_running", checker: C09Checker{}, names: []string{"fa", "fb", "fd", "fg", "mk4"}, depth: [2]int{2, 2}, probes: true,
			initials: func() []*Initial { return CoreInitials()[:2] },
			opts:     func(o *WorldOpts) { o.ValueTimestamp = 7; o.ResyncOnProbe = true }}},
		deep: &deepPhase{names: []string{"fa", "fa1", "fb", "fd"}, depth: [2]int{3, 4}, initials: func() []*Initial { return CoreInitials()[:1] }},
		extraAssume: []string{"probe transitions (re-submissions) start from every state reached with fewer than depth_bound operations"}})
}

func toInt64(v any) int64 {
	switch x := v.(type) {
	case int:
		return int64(x)
	case int64:
		return x
	case int32:
		return int64(x)
	}
	return 0
}
