package h

import (
	"fmt"
	"sort"
	"strings"
)

// ConstraintFragments: each "iv-*" fragment violates exactly one constraint class on its own,
// independently of the state (no other fragment of the C03 alphabet defines the nodes involved).
func ConstraintFragments() map[string]*Fragment {
	fs := []*Fragment{
		{Name: "ok-refs", Leaves: []Leaf{
			leaf("ifdescr", "if", e1, "descr"),
			leaf("e1", "refs", "uplink"),
			leaf("nonexist", "refs", "opt-uplink"),
			Leaf{P: P("refs", "ll"), LLU: []uint64{1, 2}},
			leaf("g", "refs", "guard"),
			leaf("rr", "sys", "hostname"), // instantiates container sys, so that the default of sys/mtu is loaded for the must statement
		}},
		{Name: "ok-mand", Leaves: []Leaf{
			leaf("v", "mand", K{"id", "m1"}, "v"),
			leaf("m", "mand", K{"id", "m1"}, "m"),
		}},
		{Name: "ok-guard", Leaves: []Leaf{leaf("g", "refs", "guard"), leaf("rg", "sys", "hostname")}},
		{Name: "p-mtu5", Leaves: []Leaf{leaf("500", "sys", "mtu")}},  // invalid only if some live intent holds refs/guard
		{Name: "p-mtu9", Leaves: []Leaf{leaf("9000", "sys", "mtu")}},
		{Name: "iv-length", Leaves: []Leaf{leaf("abcdefghijklmnopq", "sys", "hostname")}},
		{Name: "iv-pattern", Leaves: []Leaf{leaf("Upper", "sys", "hostname")}},
		{Name: "iv-leafref", Leaves: []Leaf{leaf("nonexist", "refs", "uplink")}},
		{Name: "iv-must", Leaves: []Leaf{leaf("g", "refs", "guard"), leaf("500", "sys", "mtu")}},
		{Name: "iv-mandatory", Leaves: []Leaf{leaf("v", "mand", K{"id", "m2"}, "v")}},
		{Name: "iv-max-elements", Leaves: []Leaf{leafLL([]string{"a", "b", "c", "d"}, "sys", "dns")}},
		{Name: "iv-ll-range", Leaves: []Leaf{{P: P("refs", "ll"), LLU: []uint64{1, 77}}}},
		{Name: "iv-range", Leaves: []Leaf{leaf("5000", "if", e1, "unit", K{"id", "1"}, "vlan")}},
		{Name: "iv-enum", Leaves: []Leaf{leaf("100g", "if", e1, "speed")}},
	}
	m := map[string]*Fragment{}
	for _, f := range fs {
		m[f.Name] = f
	}
	return m
}

var InvalidFragOrder = []string{"iv-length", "iv-pattern", "iv-leafref", "iv-must", "iv-mandatory", "iv-max-elements", "iv-ll-range", "iv-range", "iv-enum"}

// c03Frags: the exploration alphabet avoids fragments that define sys/mtu, refs/uplink, refs/ll or mand/*, so that the
// validity of every iv-* / ok-* fragment does not depend on the state (p-mtu5 deliberately does: it is invalid
// exactly when another owner's ok-guard is live).
func c03Frags() (map[string]*Fragment, []string) {
	return mergeFrags(CoreFragments(), MultiKeyFragments(), ConstraintFragments()), []string{"fa", "fb", "fc", "fd", "mk4", "ok-guard"}
}

// C03Probes is the request menu.
func C03Probes(m *Model) []Op {
	var ops []Op
	both := func(op Op) {
		ops = append(ops, op)
		d := op
		d.DryRun = true
		ops = append(ops, d)
	}
	// valid requests (dry run and real)
	both(single(IntentSpec{Owner: "A", Prio: 10, Frag: "fa"}))
	both(single(IntentSpec{Owner: "B", Prio: 20, Frag: "fb"}))
	both(single(IntentSpec{Owner: "C", Prio: 30, Frag: "ok-refs"}))
	both(single(IntentSpec{Owner: "A", Prio: 10, Frag: "ok-mand"}))
	both(single(IntentSpec{Owner: "A", Prio: 10, Delete: true}))
	both(single(IntentSpec{Owner: "B", Prio: 20, Delete: true}))
	both(Op{Intents: []IntentSpec{{Owner: "A", Prio: 10, Frag: "fc"}, {Owner: "C", Prio: 30, Frag: "fd"}}})
	// requests whose validity depends on another owner's intent (the error is attributed to data of that intent)
	both(single(IntentSpec{Owner: "A", Prio: 10, Frag: "p-mtu5"}))
	both(single(IntentSpec{Owner: "C", Prio: 30, Frag: "p-mtu5"}))
	both(single(IntentSpec{Owner: "A", Prio: 10, Frag: "p-mtu9"}))
	// invalid in exactly one constraint class, by each of two owners (ruling and shadowed positions)
	for _, f := range InvalidFragOrder {
		both(single(IntentSpec{Owner: "A", Prio: 10, Frag: f}))
		both(single(IntentSpec{Owner: "C", Prio: 30, Frag: f}))
	}
	// mixed valid + invalid intents in one transaction
	for _, f := range []string{"iv-length", "iv-leafref", "iv-mandatory", "iv-max-elements"} {
		both(Op{Intents: []IntentSpec{{Owner: "A", Prio: 10, Frag: "fa"}, {Owner: "B", Prio: 20, Frag: f}}})
		both(Op{Intents: []IntentSpec{{Owner: "A", Prio: 10, Frag: f}, {Owner: "B", Prio: 20, Frag: "fb"}}})
	}
	// replace intents: valid and invalid, alone and with ordinary intents (valid and invalid)
	for _, rf := range []string{"fa", "fc", "iv-length", "iv-must", "iv-mandatory"} {
		r := &IntentSpec{Owner: "replace", Frag: rf}
		both(Op{Replace: r})
		both(Op{Replace: r, Intents: []IntentSpec{{Owner: "B", Prio: 20, Frag: "fb"}}})
		both(Op{Replace: r, Intents: []IntentSpec{{Owner: "B", Prio: 20, Frag: "iv-length"}}})
	}
	return ops
}

// C03Checker: rejected and dry-run transactions change nothing; dry run predicts the real run.
type C03Checker struct{}

func opClass(op Op) string {
	var parts []string
	for _, i := range op.Intents {
		switch {
		case i.Delete:
			parts = append(parts, "delete")
		case strings.HasPrefix(i.Frag, "iv-"):
			parts = append(parts, i.Frag)
		default:
			parts = append(parts, "valid")
		}
	}
	sort.Strings(parts)
	r := strings.Join(parts, "+")
	if op.Replace != nil {
		if strings.HasPrefix(op.Replace.Frag, "iv-") {
			r += "|replace:" + op.Replace.Frag
		} else {
			r += "|replace:valid"
		}
	}
	if op.DryRun {
		r += "|dry"
	}
	return r
}

func (C03Checker) Check(s *Step) []*Violation {
	if !s.Probe {
		return nil
	}
	var vs []*Violation
	cls := opClass(s.Op)
	add := func(clause, detail string) {
		vs = append(vs, &Violation{Clause: clause, Sig: clause + ":" + cls, Detail: detail})
	}
	if s.Out.Panic != "" {
		add("panic", "TransactionSet panicked: "+s.Out.Panic)
		return vs
	}
	replaceInvalid := s.Op.Replace != nil && strings.HasPrefix(s.Op.Replace.Frag, "iv-")
	if replaceInvalid && !s.Out.Rejected() {
		add("replace-failure-hidden", fmt.Sprintf("the replace intent %s is invalid but TransactionSet returned success without intent errors (err=%v)", s.Op.Replace.Frag, s.Out.Err))
	}
	if s.Out.Rejected() || s.Op.DryRun {
		why := "rejected"
		if s.Op.DryRun && !s.Out.Rejected() {
			why = "dry-run"
		}
		devCalls := s.Out.DevCalls
		if devCalls > 0 {
			c := s.W.Dev.Calls[len(s.W.Dev.Calls)-devCalls]
			add("device-touched", fmt.Sprintf("%s transaction sent %d Set call(s) to the device: updates=%v deletes=%v", why, devCalls, c.Updates, c.Deletes))
		}
		if s.Out.ModifyCnt > 0 {
			add("cache-modified", fmt.Sprintf("%s transaction issued %d cache Modify call(s)", why, s.Out.ModifyCnt))
		}
		if s.Post == nil {
			add("stores-unreadable", "stores unreadable after the transaction")
		} else {
			if s.Pre.IntendedKey() != s.Post.IntendedKey() {
				add("intended-changed", why+" transaction changed the intended store:\nbefore:\n"+s.Pre.IntendedKey()+"after:\n"+s.Post.IntendedKey())
			}
			if mapKey(s.Pre.Running) != mapKey(s.Post.Running) {
				add("running-changed", why+" transaction changed the running store:\nbefore:\n"+mapKey(s.Pre.Running)+"after:\n"+mapKey(s.Post.Running))
			}
			if mapKey(s.Pre.Device) != mapKey(s.Post.Device) {
				add("device-changed", why+" transaction changed the device configuration")
			}
		}
	}
	// dry-run equivalence: the same request executed for real from the same state on a replica
	if s.Op.DryRun && !s.Out.Rejected() && s.Out.Rsp != nil {
		real := s.Op
		real.DryRun = false
		w2, _, err := s.E.ReplayOn(s.CC, s.Init, s.Hist, nil)
		if err != nil {
			add("replica", "cannot build replica: "+err.Error())
			return vs
		}
		defer w2.Close()
		before := w2.Dev.NumCalls()
		out2 := w2.Apply(real)
		if out2.Rejected() {
			add("dry-run-accepts-real-rejects", fmt.Sprintf("dry run succeeded but the real run was rejected: err=%v intentErrors=%v", out2.Err, intentErrors(out2)))
			return vs
		}
		gotU, gotD := map[string]string{}, []string{}
		for _, c := range w2.Dev.Calls[before:] {
			for k, v := range c.Updates {
				gotU[k] = v
			}
			gotD = append(gotD, c.Deletes...)
		}
		dryU := map[string]string{}
		for _, u := range s.Out.Rsp.GetUpdate() {
			dryU[CanonPath(u.GetPath())] = CanonTV(u.GetValue())
		}
		var dryD []string
		for _, d := range s.Out.Rsp.GetDelete() {
			dryD = append(dryD, CanonPath(d))
		}
		sort.Strings(dryD)
		sort.Strings(gotD)
		if mapKey(dryU) != mapKey(gotU) {
			add("dry-run-updates-differ", fmt.Sprintf("dry run reported updates %v, the real run sent %v", dryU, gotU))
		}
		if strings.Join(dryD, ";") != strings.Join(gotD, ";") {
			add("dry-run-deletes-differ", fmt.Sprintf("dry run reported deletes %v, the real run sent %v", dryD, gotD))
		}
	}
	return vs
}
