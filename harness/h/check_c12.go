package h

import (
	"context"
	"encoding/base64"
	"encoding/json"
	"fmt"
	"os"
	"sort"
	"strconv"
	"strings"
	"sync"

	"github.com/beevik/etree"
	"github.com/openconfig/gnmi/proto/gnmi"
	"github.com/sdcio/data-server/pkg/datastore/target/netconf"
	dtypes "github.com/sdcio/data-server/pkg/datastore/types"
	"github.com/sdcio/data-server/pkg/utils"
	sdcpb "github.com/sdcio/sdc-protos/sdcpb"
	"google.golang.org/protobuf/types/known/emptypb"
)

// C12: values survive every conversion unchanged (cross product of types x values x input forms x output forms).

type c12Type struct {
	Leaf   string   // leaf name under /types
	Kind   string   // int, uint, decimal, bool, empty, enum, identityref, union, binary, string
	Prec   uint32   // fraction digits for decimal
	Values []string // lexical values (canonical denotation)
	IsLL   bool
}

func c12Types() []c12Type {
	return []c12Type{
		{Leaf: "i8", Kind: "int", Values: []string{"0", "-1", "-128", "127"}},
		{Leaf: "i16", Kind: "int", Values: []string{"-32768", "32767"}},
		{Leaf: "i32", Kind: "int", Values: []string{"-2147483648", "2147483647"}},
		{Leaf: "i64", Kind: "int", Values: []string{"-9223372036854775808", "9223372036854775807", "-1"}},
		{Leaf: "u8", Kind: "uint", Values: []string{"0", "255"}},
		{Leaf: "u16", Kind: "uint", Values: []string{"65535"}},
		{Leaf: "u32", Kind: "uint", Values: []string{"4294967295"}},
		{Leaf: "u64", Kind: "uint", Values: []string{"0", "9223372036854775807", "9223372036854775808", "18446744073709551615"}},
		{Leaf: "d1", Kind: "decimal", Prec: 1, Values: []string{"1.5", "-2.5", "0.1", "3", "15", "-0.5"}}, // 1.5 / 15: same digits, the point elsewhere; -0.5: sign with a zero integer part
		{Leaf: "d2", Kind: "decimal", Prec: 2, Values: []string{"3.14", "-0.05", "100", "0.5", "5", "0.05"}},
		{Leaf: "d18", Kind: "decimal", Prec: 18, Values: []string{"0.000000000000000001", "-9.223372036854775808", "1.5"}},
		{Leaf: "bo", Kind: "bool", Values: []string{"true", "false"}},
		{Leaf: "em", Kind: "empty", Values: []string{"<empty>"}},
		{Leaf: "en", Kind: "enum", Values: []string{"one", "two"}},
		{Leaf: "idr", Kind: "identityref", Values: []string{"tcp", "udp", "sctp"}},
		{Leaf: "un", Kind: "union", Values: []string{"5", "auto", "abc"}},
		{Leaf: "bin", Kind: "binary", Values: []string{"aGVsbG8="}},
		{Leaf: "st", Kind: "string", Values: []string{"hello", "a b", "üñí", "007", "true"}},
		{Leaf: "ll-i8", Kind: "int", IsLL: true, Values: []string{"-1,5", "127", "-1"}},
		{Leaf: "ll-u64", Kind: "uint", IsLL: true, Values: []string{"1,18446744073709551615"}},
		{Leaf: "ll-d2", Kind: "decimal", Prec: 2, IsLL: true, Values: []string{"1.25,-0.05"}},
		{Leaf: "ll-st", Kind: "string", IsLL: true, Values: []string{"a,b c", "a", "a,b c,d"}},
		{Leaf: "ll-idr", Kind: "identityref", IsLL: true, Values: []string{"tcp,udp", "sctp,tcp"}},
	}
}

var c12Forms = []string{"typed", "string", "json", "json_ietf"}

// denotation of a lexical value: the canonical string the harness compares everywhere.
func (t c12Type) denote(v string) string {
	one := func(s string) string {
		switch t.Kind {
		case "decimal":
			c, _ := canonDecimalString(s)
			return c
		case "binary":
			b, err := base64.StdEncoding.DecodeString(s)
			if err != nil {
				return "bin?" + s
			}
			return fmt.Sprintf("bytes:%x", b)
		}
		return s
	}
	if t.IsLL {
		var els []string
		for _, e := range strings.Split(v, ",") {
			els = append(els, one(e))
		}
		return LL(els...)
	}
	return one(v)
}

// scalarTV builds the typed value of one scalar.
func (t c12Type) scalarTV(s string) *sdcpb.TypedValue {
	switch t.Kind {
	case "int":
		n, _ := strconv.ParseInt(s, 10, 64)
		return &sdcpb.TypedValue{Value: &sdcpb.TypedValue_IntVal{IntVal: n}}
	case "uint":
		n, _ := strconv.ParseUint(s, 10, 64)
		return &sdcpb.TypedValue{Value: &sdcpb.TypedValue_UintVal{UintVal: n}}
	case "decimal":
		// digits / 10^prec with exactly the schema's fraction digits
		c, _ := canonDecimalString(s)
		neg := strings.HasPrefix(c, "-")
		c = strings.TrimPrefix(c, "-")
		parts := strings.SplitN(c, ".", 2)
		frac := ""
		if len(parts) > 1 {
			frac = parts[1]
		}
		for uint32(len(frac)) < t.Prec {
			frac += "0"
		}
		d, _ := strconv.ParseInt(parts[0]+frac, 10, 64)
		if neg {
			d = -d
		}
		if s == "-9.223372036854775808" {
			d = -9223372036854775808
		}
		return &sdcpb.TypedValue{Value: &sdcpb.TypedValue_DecimalVal{DecimalVal: &sdcpb.Decimal64{Digits: d, Precision: t.Prec}}}
	case "bool":
		return &sdcpb.TypedValue{Value: &sdcpb.TypedValue_BoolVal{BoolVal: s == "true"}}
	case "empty":
		return &sdcpb.TypedValue{Value: &sdcpb.TypedValue_EmptyVal{EmptyVal: &emptypb.Empty{}}}
	case "identityref":
		if s == "sctp" {
			return &sdcpb.TypedValue{Value: &sdcpb.TypedValue_IdentityrefVal{IdentityrefVal: &sdcpb.IdentityRef{Value: s, Prefix: "vmx", Module: "verif-vm-ext"}}}
		}
		return &sdcpb.TypedValue{Value: &sdcpb.TypedValue_IdentityrefVal{IdentityrefVal: &sdcpb.IdentityRef{Value: s, Prefix: "vm", Module: "verif-vm"}}}
	case "binary":
		b, _ := base64.StdEncoding.DecodeString(s)
		return &sdcpb.TypedValue{Value: &sdcpb.TypedValue_BytesVal{BytesVal: b}}
	}
	return &sdcpb.TypedValue{Value: &sdcpb.TypedValue_StringVal{StringVal: s}}
}

func (t c12Type) jsonScalar(s string, ietf bool) any {
	switch t.Kind {
	case "int", "uint":
		big := strings.HasSuffix(t.Leaf, "64")
		if ietf && big {
			return s
		}
		return json.Number(s)
	case "decimal":
		if ietf {
			return s
		}
		return json.Number(s)
	case "bool":
		return s == "true"
	case "empty":
		if ietf {
			return []any{nil}
		}
		return map[string]any{}
	case "identityref":
		if ietf {
			if s == "sctp" {
				return "verif-vm-ext:" + s
			}
			return "verif-vm:" + s
		}
		return s
	case "union":
		if s == "5" {
			return json.Number(s)
		}
	}
	return s
}

// update builds the request update for a value in the given input form.
func (t c12Type) update(v, form string) *sdcpb.Update {
	leafPath := P("types", t.Leaf).Sdcpb()
	split := func() []string {
		if t.IsLL {
			return strings.Split(v, ",")
		}
		return []string{v}
	}
	switch form {
	case "typed":
		if t.IsLL {
			arr := &sdcpb.ScalarArray{}
			for _, e := range split() {
				arr.Element = append(arr.Element, t.scalarTV(e))
			}
			return &sdcpb.Update{Path: leafPath, Value: &sdcpb.TypedValue{Value: &sdcpb.TypedValue_LeaflistVal{LeaflistVal: arr}}}
		}
		return &sdcpb.Update{Path: leafPath, Value: t.scalarTV(v)}
	case "string":
		if t.IsLL {
			arr := &sdcpb.ScalarArray{}
			for _, e := range split() {
				arr.Element = append(arr.Element, &sdcpb.TypedValue{Value: &sdcpb.TypedValue_StringVal{StringVal: e}})
			}
			return &sdcpb.Update{Path: leafPath, Value: &sdcpb.TypedValue{Value: &sdcpb.TypedValue_LeaflistVal{LeaflistVal: arr}}}
		}
		return &sdcpb.Update{Path: leafPath, Value: &sdcpb.TypedValue{Value: &sdcpb.TypedValue_StringVal{StringVal: v}}}
	default:
		ietf := form == "json_ietf"
		var jv any
		if t.IsLL {
			var arr []any
			for _, e := range split() {
				arr = append(arr, t.jsonScalar(e, ietf))
			}
			jv = arr
		} else {
			jv = t.jsonScalar(v, ietf)
		}
		b, _ := json.Marshal(map[string]any{t.Leaf: jv})
		if ietf {
			return &sdcpb.Update{Path: P("types").Sdcpb(), Value: &sdcpb.TypedValue{Value: &sdcpb.TypedValue_JsonIetfVal{JsonIetfVal: b}}}
		}
		return &sdcpb.Update{Path: P("types").Sdcpb(), Value: &sdcpb.TypedValue{Value: &sdcpb.TypedValue_JsonVal{JsonVal: b}}}
	}
}

// xmlLeafTexts returns the texts of /types/<leaf> elements in the document.
func xmlLeafTexts(doc *etree.Document, leaf string) ([]string, bool) {
	if doc == nil {
		return nil, false
	}
	var res []string
	found := false
	for _, ty := range doc.FindElements("/types") {
		for _, e := range ty.ChildElements() {
			if e.Tag == leaf {
				found = true
				res = append(res, e.Text())
			}
		}
	}
	return res, found
}

func (t c12Type) denoteXMLTexts(texts []string) string {
	one := func(s string) string {
		switch t.Kind {
		case "decimal":
			c, _ := canonDecimalString(s)
			return c
		case "identityref":
			if i := strings.Index(s, ":"); i >= 0 {
				return s[i+1:]
			}
		case "empty":
			return "<empty>"
		case "binary":
			b, err := base64.StdEncoding.DecodeString(s)
			if err == nil {
				return fmt.Sprintf("bytes:%x", b)
			}
			return "bin?" + s
		}
		return s
	}
	if t.IsLL {
		var els []string
		for _, s := range texts {
			els = append(els, one(s))
		}
		return LL(els...)
	}
	if len(texts) != 1 {
		return fmt.Sprintf("<%d elements>", len(texts))
	}
	return one(texts[0])
}

// canonTVFor canonicalises a typed value in the light of the leaf kind (binary given as string etc.).
func (t c12Type) canonTVFor(tv *sdcpb.TypedValue) string {
	c := CanonTV(tv)
	if t.Kind == "binary" {
		if s, ok := tv.GetValue().(*sdcpb.TypedValue_StringVal); ok {
			return t.denote(s.StringVal)
		}
	}
	if t.Kind == "decimal" && !t.IsLL {
		if _, ok := tv.GetValue().(*sdcpb.TypedValue_StringVal); ok {
			d, _ := canonDecimalString(c)
			return d
		}
	}
	return c
}

func runC12() int {
	u, err := LoadUniverse()
	if err != nil {
		return fail(err)
	}
	rep := NewReporter("C12", "exploration")
	rep.Assumptions = []string{
		"one leaf (or leaf-list) per YANG built-in type in container /types of the universe; boundary and interior values per type are listed in the evidence; every (type, value, input form) is sent through the real TransactionSet and observed at the recording device in all encodings, in both stores and through GetData in all four encodings",
		"denotation: integers as decimal text, decimal64 as a reduced decimal, identityref by identity name, binary by its bytes, leaf-lists as multisets",
	}
	type job struct {
		t    c12Type
		v    string
		form string
	}
	var jobs []job
	for _, t := range c12Types() {
		for _, v := range t.Values {
			for _, f := range c12Forms {
				if t.Kind == "empty" && f == "string" {
					continue // the empty type has no lexical string form
				}
				jobs = append(jobs, job{t, v, f})
			}
		}
	}
	var mu sync.Mutex
	evals := 0
	distinct := map[string]bool{}
	var samples []any
	produced := map[string][]*sdcpb.TypedValue{} // leaf -> typed values seen anywhere (for the equality clause)
	producedDen := map[string][]string{}
	ch := make(chan job, 64)
	var wg sync.WaitGroup
	for i := 0; i < 16; i++ {
		wg.Add(1)
		go func() {
			defer wg.Done()
			wc := NewWorkerCache()
			defer wc.Close()
			for j := range ch {
				cc, err := wc.Get()
				if err != nil {
					fmt.Fprintln(os.Stderr, err)
					continue
				}
				want := j.t.denote(j.v)
				leafCanon := P("types", j.t.Leaf).String()
				cas := map[string]any{"leaf": "/types/" + j.t.Leaf, "value": j.v, "input_form": j.form}
				add := func(clause, out, detail string) {
					rep.Add(&Violation{Clause: clause, Sig: fmt.Sprintf("%s:%s:%s:in=%s:out=%s", clause, j.t.Kind+map[bool]string{true: "-leaflist", false: ""}[j.t.IsLL], j.t.Leaf, j.form, out), Detail: detail, Case: cas, Engine: "E3-inputs"})
				}
				w, err := NewWorld(u, cc, nil, WorldOpts{RenderAll: true})
				if err != nil {
					fmt.Fprintln(os.Stderr, err)
					continue
				}
				func() {
					defer func() {
						if r := recover(); r != nil {
							add("panic", "-", fmt.Sprintf("panic: %v", r))
						}
					}()
					ctx := context.Background()
					ti, err := w.DS.SdcpbTransactionIntentToInternalTI(ctx, &sdcpb.TransactionIntent{Intent: "A", Priority: 10, Update: []*sdcpb.Update{j.t.update(j.v, j.form)}})
					if err != nil {
						add("valid-value-refused", "conversion", fmt.Sprintf("request conversion refused %s=%q given as %s: %v", j.t.Leaf, j.v, j.form, err))
						return
					}
					rsp, err := w.DS.TransactionSet(ctx, "t1", []*dtypes.TransactionIntent{ti}, nil, 3600e9, false)
					bad := err != nil
					for _, ir := range rsp.GetIntents() {
						if len(ir.GetErrors()) > 0 {
							bad = true
						}
					}
					if bad {
						add("valid-value-refused", "validation", fmt.Sprintf("TransactionSet refused %s=%q given as %s: err=%v rsp=%v", j.t.Leaf, j.v, j.form, err, rsp.GetIntents()))
						return
					}
					_ = w.DS.TransactionConfirm(ctx, "t1")
					check := func(out, got string) {
						if got != want {
							add("value-changed", out, fmt.Sprintf("%s=%q given as %s denotes %q at %s (expected %q)", j.t.Leaf, j.v, j.form, got, out, want))
						}
					}
					note := func(tv *sdcpb.TypedValue, den string) {
						mu.Lock()
						produced[j.t.Leaf] = append(produced[j.t.Leaf], tv)
						producedDen[j.t.Leaf] = append(producedDen[j.t.Leaf], den)
						mu.Unlock()
					}
					if len(w.Dev.Calls) == 0 || w.Dev.Calls[0].R == nil {
						add("nothing-sent", "device", "no Set call reached the device")
						return
					}
					r := w.Dev.Calls[0].R
					// proto typed value and its gNMI conversion
					var ptv *sdcpb.TypedValue
					for _, up := range r.ProtoUpdates {
						if CanonPath(up.GetPath()) == leafCanon {
							ptv = up.GetValue()
						}
					}
					if ptv == nil {
						add("nothing-sent", "proto", "the leaf is not among the proto updates")
					} else {
						check("proto", j.t.canonTVFor(ptv))
						note(ptv, want)
						check("gnmi", canonGNMI(utils.ToGNMITypedValue(ptv), j.t))
					}
					for name, doc := range map[string]any{"json": r.JSON, "json_ietf": r.IETF} {
						lv, probs := u.JSONLeaves(doc, name == "json_ietf")
						if len(probs) > 0 {
							add("malformed", name, strings.Join(probs, "; "))
						}
						if got, ok := lv[leafCanon]; ok {
							check(name, got)
						} else {
							add("nothing-sent", name, "the leaf is missing in the "+name+" document: "+jsonStr(doc))
						}
					}
					if texts, ok := xmlLeafTexts(r.XMLDocs[XMLOpt{}], j.t.Leaf); ok {
						check("xml", j.t.denoteXMLTexts(texts))
					} else {
						add("nothing-sent", "xml", "the leaf is missing in the XML document: "+r.XML[XMLOpt{}])
					}
					// stored values
					st, err := w.Snapshot()
					if err == nil {
						for _, e := range st.Intended {
							if e.Path == leafCanon {
								check("intended-store", map[bool]string{true: j.t.denote(e.Val), false: e.Val}[j.t.Kind == "binary" && !strings.HasPrefix(e.Val, "bytes:")])
							}
						}
						if v, ok := st.Running[leafCanon]; ok {
							check("running-store", map[bool]string{true: j.t.denote(v), false: v}[j.t.Kind == "binary" && !strings.HasPrefix(v, "bytes:")])
						} else {
							add("nothing-sent", "running-store", "the leaf is missing in the running store")
						}
					}
					// GetData in all four encodings
					for _, enc := range c14Encodings {
						rsps, gerr, _, hung, pan := doGet(w, &sdcpb.GetDataRequest{Name: w.Name, Path: []*sdcpb.Path{P("types").Sdcpb()}, DataType: sdcpb.DataType_CONFIG,
							Encoding: enc, Datastore: &sdcpb.DataStore{Type: sdcpb.Type_MAIN}})
						out := "getdata-" + enc.String()
						if pan != "" || hung {
							add("panic", out, "GetData panicked or hung: "+pan)
							continue
						}
						if gerr != nil {
							add("getdata-error", out, gerr.Error())
							continue
						}
						found := false
						for _, rr := range rsps {
							for _, n := range rr.GetNotification() {
								for _, up := range n.GetUpdate() {
									switch enc {
									case sdcpb.Encoding_STRING, sdcpb.Encoding_PROTO:
										if CanonPath(up.GetPath()) == leafCanon {
											found = true
											check(out, j.t.canonTVFor(up.GetValue()))
											note(up.GetValue(), want)
										}
									default:
										doc, err := ParseJSONBytes(up.GetValue().GetJsonVal())
										if err != nil {
											add("malformed", out, err.Error())
											continue
										}
										lv, _ := u.JSONLeaves(doc, enc == sdcpb.Encoding_JSON_IETF)
										if got, ok := lv[leafCanon]; ok {
											found = true
											check(out, got)
										}
									}
								}
							}
						}
						if !found {
							add("nothing-sent", out, "GetData does not return the leaf")
						}
					}
				}()
				w.Close()
				mu.Lock()
				evals++
				distinct[j.t.Leaf+"|"+j.v+"|"+j.form] = true
				if len(samples) < 8 && evals%17 == 0 {
					samples = append(samples, cas)
				}
				mu.Unlock()
			}
		}()
	}
	for _, j := range jobs {
		ch <- j
	}
	close(ch)
	wg.Wait()

	// device XML text through the NETCONF adapter (input form "XML text from the device")
	xmlEvals := 0
	func() {
		wc := NewWorkerCache()
		defer wc.Close()
		cc, err := wc.Get()
		if err != nil {
			return
		}
		w, err := NewWorld(u, cc, nil, WorldOpts{})
		if err != nil {
			return
		}
		defer w.Close()
		ad := netconf.NewXML2sdcpbConfigAdapter(w.DS.VerifSchemaClient())
		// one document holding every leaf-list (first value each) and every scalar leaf of the container: each must
		// come out under its own path with its own value (several leaf-lists of one container share a context)
		func() {
			var sb strings.Builder
			sb.WriteString(`<data><types xmlns="urn:verif:vm">`)
			for _, t := range c12Types() {
				if len(t.Values) == 0 || t.Kind == "empty" || t.Kind == "identityref" {
					continue
				}
				els := []string{t.Values[0]}
				if t.IsLL {
					els = strings.Split(t.Values[0], ",")
				}
				for _, e := range els {
					fmt.Fprintf(&sb, "<%s>%s</%s>", t.Leaf, e, t.Leaf)
				}
			}
			sb.WriteString("</types></data>")
			doc := etree.NewDocument()
			if err := doc.ReadFromString(sb.String()); err != nil {
				return
			}
			xmlEvals++
			var notis []*sdcpb.Notification
			var terr error
			pan := ""
			func() {
				defer func() {
					if r := recover(); r != nil {
						pan = fmt.Sprintf("%v", r)
					}
				}()
				notis, terr = ad.Transform(context.Background(), doc)
			}()
			cas := map[string]any{"input_form": "xml", "document": sb.String()}
			if pan != "" || terr != nil {
				rep.Add(&Violation{Clause: "valid-value-refused", Sig: "valid-value-refused:combined-document:in=xml:out=notification", Detail: fmt.Sprintf("the XML adapter refused / panicked on a document with all leaves of the container: %v %s", terr, pan), Case: cas, Engine: "E3-inputs"})
				return
			}
			for _, t := range c12Types() {
				if len(t.Values) == 0 || t.Kind == "empty" || t.Kind == "identityref" {
					continue
				}
				var got []string
				for _, n := range notis {
					for _, up := range n.GetUpdate() {
						if CanonPath(up.GetPath()) == P("types", t.Leaf).String() {
							got = append(got, t.canonTVFor(up.GetValue()))
						}
					}
				}
				g := fmt.Sprintf("<%d updates>", len(got))
				if t.IsLL {
					if len(got) == 1 && strings.HasPrefix(got[0], "[") {
						g = got[0]
					} else {
						g = LL(got...)
					}
				} else if len(got) == 1 {
					g = got[0]
				}
				if want := t.denote(t.Values[0]); g != want {
					rep.Add(&Violation{Clause: "value-changed", Sig: fmt.Sprintf("value-changed:%s:%s:in=xml-combined:out=notification", t.Kind+map[bool]string{true: "-leaflist", false: ""}[t.IsLL], t.Leaf),
						Detail: fmt.Sprintf("in a document with all leaves of the container, %s arrives as %q (expected %q)", t.Leaf, g, want), Case: cas, Engine: "E3-inputs"})
				}
			}
		}()
		for _, t := range c12Types() {
			for _, v := range t.Values {
				var sb strings.Builder
				sb.WriteString(`<data><types xmlns="urn:verif:vm">`)
				els := []string{v}
				if t.IsLL {
					els = strings.Split(v, ",")
				}
				for _, e := range els {
					switch t.Kind {
					case "empty":
						fmt.Fprintf(&sb, "<%s/>", t.Leaf)
					case "identityref":
						if e == "sctp" {
							fmt.Fprintf(&sb, `<%s xmlns:vmx="urn:verif:vm-ext">vmx:%s</%s>`, t.Leaf, e, t.Leaf)
						} else {
							fmt.Fprintf(&sb, `<%s xmlns:vm="urn:verif:vm">vm:%s</%s>`, t.Leaf, e, t.Leaf)
						}
					default:
						fmt.Fprintf(&sb, "<%s>%s</%s>", t.Leaf, e, t.Leaf)
					}
				}
				sb.WriteString("</types></data>")
				doc := etree.NewDocument()
				if err := doc.ReadFromString(sb.String()); err != nil {
					continue
				}
				xmlEvals++
				cas := map[string]any{"leaf": "/types/" + t.Leaf, "value": v, "input_form": "xml", "document": sb.String()}
				add := func(clause, detail string) {
					rep.Add(&Violation{Clause: clause, Sig: fmt.Sprintf("%s:%s:%s:in=xml:out=notification", clause, t.Kind+map[bool]string{true: "-leaflist", false: ""}[t.IsLL], t.Leaf), Detail: detail, Case: cas, Engine: "E3-inputs"})
				}
				var notis []*sdcpb.Notification
				var terr error
				pan := ""
				func() {
					defer func() {
						if r := recover(); r != nil {
							pan = fmt.Sprintf("%v", r)
						}
					}()
					notis, terr = ad.Transform(context.Background(), doc)
				}()
				if pan != "" {
					add("panic", "XML adapter panicked: "+pan)
					continue
				}
				if terr != nil {
					add("valid-value-refused", "XML adapter refused the document: "+terr.Error())
					continue
				}
				var got []string
				for _, n := range notis {
					for _, up := range n.GetUpdate() {
						if CanonPath(up.GetPath()) == P("types", t.Leaf).String() {
							got = append(got, t.canonTVFor(up.GetValue()))
						}
					}
				}
				want := t.denote(v)
				g := ""
				if t.IsLL {
					// a leaf-list may arrive as one update with a leaf-list value or one update per element
					if len(got) == 1 && strings.HasPrefix(got[0], "[") {
						g = got[0]
					} else {
						g = LL(got...)
					}
				} else if len(got) == 1 {
					g = got[0]
				} else {
					g = fmt.Sprintf("<%d updates>", len(got))
				}
				if g != want {
					add("value-changed", fmt.Sprintf("XML text %q of %s denotes %q in the notification (expected %q)", v, t.Leaf, g, want))
				}
			}
		}
	}()

	// equality clause: EqualTypedValues <=> equal denotation, over all typed values produced per leaf
	eqPairs := 0
	for leaf, tvs := range produced {
		dens := producedDen[leaf]
		type rep2 struct {
			tv  *sdcpb.TypedValue
			den string
		}
		// de-duplicate by (serialised value, denotation)
		uniq := map[string]rep2{}
		for i, tv := range tvs {
			uniq[tv.String()+"|"+dens[i]] = rep2{tv, dens[i]}
		}
		keys := make([]string, 0, len(uniq))
		for k := range uniq {
			keys = append(keys, k)
		}
		sort.Strings(keys)
		for a := 0; a < len(keys); a++ {
			for b := a; b < len(keys); b++ {
				x, y := uniq[keys[a]], uniq[keys[b]]
				eqPairs++
				eq := false
				pan := ""
				func() {
					defer func() {
						if r := recover(); r != nil {
							pan = fmt.Sprintf("%v", r)
						}
					}()
					eq = utils.EqualTypedValues(x.tv, y.tv)
					if rev := utils.EqualTypedValues(y.tv, x.tv); rev != eq {
						rep.Add(&Violation{Clause: "equality-not-symmetric", Sig: "equality-not-symmetric:" + leaf, Engine: "E3-inputs",
							Detail: fmt.Sprintf("EqualTypedValues(%s, %s) = %v but with swapped arguments %v", x.tv.String(), y.tv.String(), eq, rev),
							Case:   map[string]any{"leaf": leaf, "a": x.tv.String(), "b": y.tv.String()}})
						eq = x.den == y.den // already reported
					}
				}()
				if pan != "" {
					rep.Add(&Violation{Clause: "panic", Sig: "panic:equality:" + leaf, Detail: "EqualTypedValues panicked: " + pan, Engine: "E3-inputs", Case: map[string]any{"a": x.tv.String(), "b": y.tv.String()}})
					continue
				}
				if eq != (x.den == y.den) {
					kind := "equal-data-compare-different"
					if eq {
						kind = "different-data-compare-equal"
					}
					rep.Add(&Violation{Clause: kind, Sig: kind + ":" + leaf, Engine: "E3-inputs",
						Detail: fmt.Sprintf("EqualTypedValues(%s, %s) = %v but they denote %q and %q", x.tv.String(), y.tv.String(), eq, x.den, y.den),
						Case:   map[string]any{"leaf": leaf, "a": x.tv.String(), "b": y.tv.String()}})
				}
			}
		}
	}
	return rep.Finish(map[string]any{
		"evaluations":          evals + xmlEvals,
		"pipeline_runs":        evals,
		"xml_adapter_runs":     xmlEvals,
		"equality_pairs":       eqPairs,
		"distinct_nontrivial":  len(distinct),
		"rule":                 "full cross product of 23 leaf / leaf-list types x their listed boundary and interior values x 4 client input forms (typed, string, JSON, JSON_IETF) through the real transaction pipeline, each observed in 12 output forms (proto, gNMI, JSON, JSON_IETF, XML, both stores, GetData x4); plus every value as device XML text through the NETCONF adapter; plus EqualTypedValues on all pairs of typed values produced per leaf; distinct = (leaf, value, input form)",
		"samples":              samples,
		"types":                c12Types(),
		"exhaustive":           true,
	})
}

func init() {
	Checks["C12"] = func([]string) int { return runC12() }
}

// canonGNMI denotes a gNMI typed value directly (not through the implementation's own converter).
func canonGNMI(v *gnmi.TypedValue, t c12Type) string {
	if v == nil {
		return "<nil>"
	}
	switch x := v.GetValue().(type) {
	case *gnmi.TypedValue_StringVal:
		if t.Kind == "decimal" {
			d, _ := canonDecimalString(x.StringVal)
			return d
		}
		return x.StringVal
	case *gnmi.TypedValue_IntVal:
		return fmt.Sprintf("%d", x.IntVal)
	case *gnmi.TypedValue_UintVal:
		return fmt.Sprintf("%d", x.UintVal)
	case *gnmi.TypedValue_BoolVal:
		return fmt.Sprintf("%t", x.BoolVal)
	case *gnmi.TypedValue_BytesVal:
		return fmt.Sprintf("bytes:%x", x.BytesVal)
	case *gnmi.TypedValue_DoubleVal:
		d, _ := canonDecimalString(fmt.Sprintf("%v", x.DoubleVal))
		return d
	case *gnmi.TypedValue_LeaflistVal:
		var els []string
		for _, e := range x.LeaflistVal.GetElement() {
			els = append(els, canonGNMI(e, t))
		}
		return LL(els...)
	}
	return fmt.Sprintf("?%T", v.GetValue())
}
