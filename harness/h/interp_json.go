package h

import (
	"context"
	"encoding/json"
	"fmt"
	"math/big"
	"sort"
	"strings"
	"sync"

	sdcpb "github.com/sdcio/sdc-protos/sdcpb"
)

// Schema-guided interpreter for JSON / JSON_IETF documents of the universe: maps a document to
// (canonical path -> canonical value) and reports well-formedness problems.

type nodeInfo struct {
	se     *sdcpb.SchemaElem
	module string
	ns     string
	keys   []string // key-statement order
}

var (
	niMu   sync.Mutex
	niMemo = map[string]*nodeInfo{}
)

// Node returns schema information for a keyless schema path.
func (u *Universe) Node(keyless []string) (*nodeInfo, error) {
	k := strings.Join(keyless, "/")
	niMu.Lock()
	ni, ok := niMemo[k]
	niMu.Unlock()
	if ok {
		if ni == nil {
			return nil, fmt.Errorf("no schema node /%s", k)
		}
		return ni, nil
	}
	p := &sdcpb.Path{}
	for _, n := range keyless {
		p.Elem = append(p.Elem, &sdcpb.PathElem{Name: n})
	}
	se, err := u.GetSchema(context.Background(), p)
	if err != nil {
		niMu.Lock()
		niMemo[k] = nil
		niMu.Unlock()
		return nil, err
	}
	ni = &nodeInfo{se: se}
	switch x := se.GetSchema().(type) {
	case *sdcpb.SchemaElem_Container:
		ni.module, ni.ns = x.Container.GetModuleName(), x.Container.GetNamespace()
		for _, ks := range x.Container.GetKeys() {
			ni.keys = append(ni.keys, ks.GetName())
		}
	case *sdcpb.SchemaElem_Field:
		ni.module, ni.ns = x.Field.GetModuleName(), x.Field.GetNamespace()
	case *sdcpb.SchemaElem_Leaflist:
		ni.module, ni.ns = x.Leaflist.GetModuleName(), x.Leaflist.GetNamespace()
	}
	niMu.Lock()
	niMemo[k] = ni
	niMu.Unlock()
	return ni, nil
}

func (n *nodeInfo) leafType() *sdcpb.SchemaLeafType {
	if f := n.se.GetField(); f != nil {
		return f.GetType()
	}
	if l := n.se.GetLeaflist(); l != nil {
		return l.GetType()
	}
	return nil
}

// canonScalar canonicalises a JSON scalar according to the YANG type.
func canonScalar(v any, t *sdcpb.SchemaLeafType, ietf bool) (string, string) {
	typ := t.GetType()
	if typ == "leafref" && t.GetLeafrefTargetType() != nil {
		return canonScalar(v, t.GetLeafrefTargetType(), ietf)
	}
	switch x := v.(type) {
	case string:
		switch typ {
		case "identityref":
			name, mod := x, ""
			if i := strings.Index(x, ":"); i >= 0 {
				mod, name = x[:i], x[i+1:]
			}
			prob := ""
			if ietf {
				// RFC 7951 6.8: the namespace-qualified form MUST be used if the identity is defined in another
				// module than the leaf; otherwise both forms are permitted
				idMod := t.GetModulePrefixMap()[name]
				switch {
				case mod != "" && idMod != "" && mod != idMod:
					prob = fmt.Sprintf("identity %s qualified with module %q, it is defined in %q", name, mod, idMod)
				case mod == "" && idMod != "" && idMod != "verif-vm":
					prob = fmt.Sprintf("identity %s of module %q lacks its module name in JSON_IETF", name, idMod)
				}
			}
			return name, prob
		case "decimal64":
			return canonDecimalString(x)
		}
		return x, ""
	case json.Number:
		if typ == "decimal64" {
			return canonDecimalString(x.String())
		}
		return x.String(), ""
	case float64:
		return strings.TrimSuffix(fmt.Sprintf("%v", x), ".0"), ""
	case bool:
		return fmt.Sprintf("%t", x), ""
	case nil:
		return "<null>", ""
	case []any:
		if typ == "empty" && len(x) == 1 && x[0] == nil {
			return "<empty>", ""
		}
		return fmt.Sprintf("%v", x), "array where a scalar is expected"
	case map[string]any:
		if typ == "empty" && len(x) == 0 {
			return "<empty>", ""
		}
		return fmt.Sprintf("%v", x), "object where a scalar is expected"
	}
	return fmt.Sprintf("%v", v), fmt.Sprintf("unexpected JSON value %T", v)
}

func canonDecimalString(s string) (string, string) {
	r, ok := new(big.Rat).SetString(s)
	if !ok {
		return s, "not a decimal: " + s
	}
	out := r.FloatString(18)
	out = strings.TrimRight(out, "0")
	out = strings.TrimSuffix(out, ".")
	return out, ""
}

// JSONLeaves interprets a document rooted at the root of the schema.
func (u *Universe) JSONLeaves(doc any, ietf bool) (map[string]string, []string) {
	l, _, p := u.JSONLeavesPaths(doc, ietf)
	return l, p
}

// pathSink collects the structured path of every leaf (key "\x00paths" is never a canonical path).
type pathSink map[string]Path

// JSONLeavesPaths is JSONLeaves that also returns the structured path of every leaf.
func (u *Universe) JSONLeavesPaths(doc any, ietf bool) (map[string]string, map[string]Path, []string) {
	leaves := map[string]string{}
	paths := map[string]Path{}
	var problems []string
	if doc == nil {
		return leaves, paths, nil
	}
	m, ok := doc.(map[string]any)
	if !ok {
		return leaves, paths, []string{fmt.Sprintf("root is %T, not an object", doc)}
	}
	u.jsonContainer(m, nil, nil, "", ietf, leaves, &problems)
	// the walker builds every canonical key from a Path; rebuild them (cheap, documents are small)
	u.jsonPaths(m, nil, nil, paths)
	sort.Strings(problems)
	return leaves, paths, problems
}

// jsonPaths walks the document like jsonContainer and records canonical path -> structured path of the leaves.
func (u *Universe) jsonPaths(m map[string]any, keyless []string, path Path, out map[string]Path) {
	for member, v := range m {
		name := member
		if i := strings.Index(member, ":"); i >= 0 {
			name = member[i+1:]
		}
		ckl := append(append([]string{}, keyless...), name)
		ni, err := u.Node(ckl)
		if err != nil || name == "" {
			continue
		}
		cpath := append(append(Path{}, path...), PE{Name: name})
		switch ni.se.GetSchema().(type) {
		case *sdcpb.SchemaElem_Container:
			if len(ni.keys) > 0 {
				arr, _ := v.([]any)
				for _, e := range arr {
					em, ok := e.(map[string]any)
					if !ok {
						continue
					}
					epath := append(Path{}, cpath...)
					complete := true
					for _, k := range ni.keys {
						kv, ok := em[k]
						if !ok {
							kv, ok = em[ni.module+":"+k]
						}
						if !ok {
							complete = false
							continue
						}
						kni, _ := u.Node(append(append([]string{}, ckl...), k))
						ks := fmt.Sprintf("%v", kv)
						if kni != nil {
							ks, _ = canonScalar(kv, kni.leafType(), false)
						}
						epath[len(epath)-1].Keys = append(epath[len(epath)-1].Keys, [2]string{k, ks})
					}
					if complete {
						u.jsonPaths(em, ckl, epath, out)
					}
				}
				continue
			}
			if cm, ok := v.(map[string]any); ok {
				if len(cm) == 0 {
					out[cpath.String()] = cpath
				} else {
					u.jsonPaths(cm, ckl, cpath, out)
				}
			}
		default:
			out[cpath.String()] = cpath
		}
	}
}

func (u *Universe) jsonLeavesOld(doc any, ietf bool) (map[string]string, []string) {
	leaves := map[string]string{}
	var problems []string
	if doc == nil {
		return leaves, nil
	}
	m, ok := doc.(map[string]any)
	if !ok {
		return leaves, []string{fmt.Sprintf("root is %T, not an object", doc)}
	}
	u.jsonContainer(m, nil, nil, "", ietf, leaves, &problems)
	sort.Strings(problems)
	return leaves, problems
}

func (u *Universe) jsonContainer(m map[string]any, keyless []string, path Path, parentModule string, ietf bool, leaves map[string]string, problems *[]string) {
	for member, v := range m {
		name, prefix := member, ""
		if i := strings.Index(member, ":"); i >= 0 {
			prefix, name = member[:i], member[i+1:]
		}
		if name == "" {
			*problems = append(*problems, fmt.Sprintf("empty member name under %s", path))
			continue
		}
		ckl := append(append([]string{}, keyless...), name)
		ni, err := u.Node(ckl)
		if err != nil {
			*problems = append(*problems, fmt.Sprintf("member %q under %s is not a schema node", member, path))
			continue
		}
		if ietf {
			need := ni.module != parentModule
			switch {
			case need && prefix == "":
				*problems = append(*problems, fmt.Sprintf("member %q under %s lacks its module prefix %q", member, path, ni.module))
			case prefix != "" && prefix != ni.module:
				*problems = append(*problems, fmt.Sprintf("member %q under %s carries module %q, schema says %q", member, path, prefix, ni.module))
			case !need && prefix != "":
				*problems = append(*problems, fmt.Sprintf("member %q under %s carries a module prefix although it is in its parent's module", member, path))
			}
		} else if prefix != "" {
			*problems = append(*problems, fmt.Sprintf("member %q under %s carries a module prefix in plain JSON", member, path))
		}
		cpath := append(append(Path{}, path...), PE{Name: name})
		switch x := ni.se.GetSchema().(type) {
		case *sdcpb.SchemaElem_Container:
			if len(ni.keys) > 0 {
				arr, ok := v.([]any)
				if !ok {
					*problems = append(*problems, fmt.Sprintf("list %s is %T, not an array", cpath, v))
					continue
				}
				for _, e := range arr {
					em, ok := e.(map[string]any)
					if !ok {
						*problems = append(*problems, fmt.Sprintf("entry of list %s is %T, not an object", cpath, e))
						continue
					}
					epath := append(Path{}, cpath...)
					complete := true
					for _, k := range ni.keys {
						kv, ok := em[k]
						if !ok {
							kv, ok = em[ni.module+":"+k]
						}
						if !ok {
							*problems = append(*problems, fmt.Sprintf("entry of list %s lacks key %q", cpath, k))
							complete = false
							continue
						}
						kni, _ := u.Node(append(append([]string{}, ckl...), k))
						ks := fmt.Sprintf("%v", kv)
						if kni != nil {
							ks, _ = canonScalar(kv, kni.leafType(), ietf)
						}
						epath[len(epath)-1].Keys = append(epath[len(epath)-1].Keys, [2]string{k, ks})
					}
					if !complete {
						continue
					}
					u.jsonContainer(em, ckl, epath, ni.module, ietf, leaves, problems)
				}
				continue
			}
			cm, ok := v.(map[string]any)
			if !ok {
				*problems = append(*problems, fmt.Sprintf("container %s is %T, not an object", cpath, v))
				continue
			}
			if len(cm) == 0 {
				if x.Container.GetIsPresence() {
					leaves[cpath.String()] = "<empty>"
				} else {
					*problems = append(*problems, fmt.Sprintf("empty object for non-presence container %s", cpath))
				}
				continue
			}
			u.jsonContainer(cm, ckl, cpath, ni.module, ietf, leaves, problems)
		case *sdcpb.SchemaElem_Field:
			s, prob := canonScalar(v, x.Field.GetType(), ietf)
			if prob != "" {
				*problems = append(*problems, fmt.Sprintf("%s: %s", cpath, prob))
			}
			leaves[cpath.String()] = s
		case *sdcpb.SchemaElem_Leaflist:
			arr, ok := v.([]any)
			if !ok {
				*problems = append(*problems, fmt.Sprintf("leaf-list %s is %T, not an array", cpath, v))
				continue
			}
			var els []string
			for _, e := range arr {
				s, prob := canonScalar(e, x.Leaflist.GetType(), ietf)
				if prob != "" {
					*problems = append(*problems, fmt.Sprintf("%s: %s", cpath, prob))
				}
				els = append(els, s)
			}
			leaves[cpath.String()] = LL(els...)
		}
	}
}

// ParseJSONBytes decodes a JSON document keeping numbers as json.Number.
func ParseJSONBytes(b []byte) (any, error) {
	var out any
	dec := json.NewDecoder(bytesReader(b))
	dec.UseNumber()
	if err := dec.Decode(&out); err != nil {
		return nil, err
	}
	return out, nil
}
