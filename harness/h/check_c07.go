package h

import (
	"fmt"
	"os"
	"sort"
	"sync"
)

// C07: a failed apply is all-or-nothing and a retry converges (fault enumeration over every collaborator call).

type c07Scenario struct {
	Name  string
	Init  *Initial
	Setup []Op
	Test  Op
}

func c07Scenarios() []c07Scenario {
	A := func(f string) Op { return single(IntentSpec{Owner: "A", Prio: 10, Frag: f}) }
	B := func(f string) Op { return single(IntentSpec{Owner: "B", Prio: 20, Frag: f}) }
	R1 := CoreInitials()[1]
	R0 := CoreInitials()[0]
	return []c07Scenario{
		{Name: "create-first-transaction", Init: R0, Test: A("fa")},
		{Name: "create-with-running", Init: R1, Test: A("fc")},
		{Name: "shadowed-update", Init: R0, Setup: []Op{A("fa"), B("fb")}, Test: B("fc")},
		{Name: "ruling-update", Init: R1, Setup: []Op{A("fa"), B("fb")}, Test: A("fb")},
		{Name: "shrink", Init: R0, Setup: []Op{A("fc")}, Test: A("fa")},
		{Name: "delete", Init: R1, Setup: []Op{A("fc"), B("fb")}, Test: single(IntentSpec{Owner: "A", Prio: 10, Delete: true})},
		{Name: "two-intents", Init: R0, Setup: []Op{A("fa")}, Test: Op{Intents: []IntentSpec{{Owner: "A", Prio: 10, Frag: "fb"}, {Owner: "C", Prio: 30, Frag: "fd"}}}},
		{Name: "reprioritise", Init: R0, Setup: []Op{A("fa"), B("fb")}, Test: single(IntentSpec{Owner: "A", Prio: 25, Frag: "fa"})},
		{Name: "choice-switch", Init: R0, Setup: []Op{single(IntentSpec{Owner: "B", Prio: 20, Frag: "ca2"})}, Test: single(IntentSpec{Owner: "A", Prio: 10, Frag: "cb1"})},
		{Name: "multi-key", Init: R0, Setup: []Op{A("mk4")}, Test: A("mk5")},
		// the request brings the shadowed case of a choice: nothing may reach the device, with or without a fault
		{Name: "choice-shadowed", Init: R0, Setup: []Op{A("ca1")}, Test: B("cb1")},
		{Name: "shadowed-create", Init: R1, Setup: []Op{A("fa")}, Test: B("fa1")},
		// the request is the cancellation: faults during the rollback, then the cancel is repeated
		{Name: "cancel-update", Init: R0, Setup: []Op{A("fa"), B("fb")}, Test: Op{Intents: []IntentSpec{{Owner: "A", Prio: 10, Frag: "fb"}}, End: "cancel"}},
		{Name: "cancel-create", Init: R1, Setup: []Op{A("fa")}, Test: Op{Intents: []IntentSpec{{Owner: "C", Prio: 30, Frag: "fd"}}, End: "cancel"}},
	}
}

type c07Result struct {
	out        *Outcome
	pre, mid   *State
	final      *State
	calls      []CallRec
	faultKind  string
	retryOut   *Outcome
	afterRetry *Outcome
}

func runC07() int {
	u, err := LoadUniverse()
	if err != nil {
		return fail(err)
	}
	rep := NewReporter("C07", "fault_enumeration")
	rep.Assumptions = []string{
		"faults are injected by decorators around the three collaborator interfaces (target.Target, cache.Client, schema.Client); a failing cache Read/ReadCh returns nothing because the interface has no error return",
		"a restart at call k is modelled by cutting the process off: call k and every later call fail and the Datastore object is abandoned; a new Datastore is then built over the same cache instance and device",
		"torn or unsynced badger writes are not enumerated (library contract)",
	}
	frags := mergeFrags(CoreFragments(), MultiKeyFragments(), ChoiceFragments())
	type job struct {
		sc   c07Scenario
		k    int
		kind string // "error" | "restart"
	}
	// fault-free reference runs: learn call sequences and final states
	type ref struct {
		calls []CallRec
		final *State
	}
	refs := map[string]*ref{}
	wc0 := NewWorkerCache()
	defer wc0.Close()
	runOne := func(cc0 interface{}, sc c07Scenario, k int, kind string, wcache *WorkerCache) (*World, *Outcome, *State, *State, []CallRec, error) {
		cc, err := wcache.Get()
		if err != nil {
			return nil, nil, nil, nil, nil, err
		}
		w, err := NewWorld(u, cc, sc.Init.Leaves, WorldOpts{Fragments: frags})
		if err != nil {
			return nil, nil, nil, nil, nil, err
		}
		for _, op := range sc.Setup {
			if out := w.Apply(op); out.Rejected() {
				w.Close()
				return nil, nil, nil, nil, nil, fmt.Errorf("scenario %s: setup op %s rejected: %v %v", sc.Name, op, out.Err, intentErrors(out))
			}
		}
		pre, err := w.Snapshot()
		if err != nil {
			w.Close()
			return nil, nil, nil, nil, nil, err
		}
		base := w.Log.Len()
		switch kind {
		case "error":
			w.Log.FailAt = base + k
		case "restart":
			w.Log.CutAt = base + k
		}
		out := w.Apply(sc.Test)
		w.Log.FailAt, w.Log.CutAt = -1, -1
		calls := append([]CallRec{}, w.Log.Calls[base:]...)
		if kind == "restart" {
			w.Reopen()
		}
		mid, err := w.Snapshot()
		if err != nil {
			w.Close()
			return nil, nil, nil, nil, nil, err
		}
		return w, out, pre, mid, calls, nil
	}
	for _, sc := range c07Scenarios() {
		w, out, _, mid, calls, err := runOne(nil, sc, -1, "none", wc0)
		if err != nil {
			return fail(err)
		}
		if out.Rejected() {
			return fail(fmt.Errorf("scenario %s: fault-free run rejected: %v %v", sc.Name, out.Err, intentErrors(out)))
		}
		// the calls of the confirm are part of the log too (none expected), keep all
		refs[sc.Name] = &ref{calls: calls, final: mid}
		w.Close()
	}
	var jobs []job
	for _, sc := range c07Scenarios() {
		if sc.Test.End == "cancel" {
			// the request under test is the cancellation: only the calls made after the TransactionSet returned are
			// failed (the Set part is what the other scenarios cover), with an error (a restart loses the open transaction)
			setOnly := sc
			setOnly.Test.End = "none"
			w, _, _, _, setCalls, err := runOne(nil, setOnly, -1, "none", wc0)
			if err != nil {
				return fail(err)
			}
			w.Close()
			for k := len(setCalls); k < len(refs[sc.Name].calls); k++ {
				jobs = append(jobs, job{sc, k, "error"})
			}
			continue
		}
		for k := range refs[sc.Name].calls {
			jobs = append(jobs, job{sc, k, "error"}, job{sc, k, "restart"})
		}
	}
	var mu sync.Mutex
	evals := 0
	distinct := map[string]bool{}
	kindsSeen := map[string]int{}
	var samples []any
	ch := make(chan job, 64)
	var wg sync.WaitGroup
	for i := 0; i < 16; i++ {
		wg.Add(1)
		go func() {
			defer wg.Done()
			wc := NewWorkerCache()
			defer wc.Close()
			for j := range ch {
				r := refs[j.sc.Name]
				callKind := r.calls[j.k].Kind
				w, out, pre, mid, calls, err := runOne(nil, j.sc, j.k, j.kind, wc)
				if err != nil {
					fmt.Fprintln(os.Stderr, "C07 harness:", err)
					rep.Add(&Violation{Clause: "harness", Sig: "harness-error:" + j.sc.Name, Detail: err.Error(), Engine: "E2-faults"})
					continue
				}
				cas := map[string]any{"scenario": j.sc.Name, "initial": j.sc.Init.Name, "setup": opsStrings(j.sc.Setup), "transaction": j.sc.Test.String(),
					"fault": fmt.Sprintf("%s at call %d (%s %s)", j.kind, j.k, callKind, r.calls[j.k].Info), "calls_seen": len(calls)}
				add := func(clause, detail string) {
					rep.Add(&Violation{Clause: clause, Sig: fmt.Sprintf("%s:%s:%s:%s", clause, j.kind, callKind, j.sc.Name), Detail: detail, Case: cas, Engine: "E2-faults"})
				}
				if out.Panic != "" {
					add("panic", "TransactionSet panicked under the fault: "+out.Panic)
				}
				// (i) the device rejects or cannot receive the change
				if j.sc.Test.End == "cancel" {
					if callKind == "target.Set" && out.EndErr == nil {
						add("device-error-not-returned", "the device failed the Set of the rollback but TransactionCancel returned no error")
					}
				} else if callKind == "target.Set" && j.kind == "error" {
					if out.Err == nil {
						add("device-error-not-returned", "the device failed the Set but TransactionSet returned no error")
					}
					if pre.IntendedKey() != mid.IntendedKey() {
						add("persisted-despite-device-error", "intent store changed although the device rejected the change:\nbefore:\n"+pre.IntendedKey()+"after:\n"+mid.IntendedKey())
					}
					if mapKey(pre.Running) != mapKey(mid.Running) {
						add("running-changed-despite-device-error", "running mirror changed although the device rejected the change")
					}
					if id, _ := w.DS.VerifOpenTransaction(); id != "" {
						add("locked-after-device-error", "transaction "+id+" is still registered after the failed apply")
					}
				}
				// (ii) retry once the fault is gone
				if j.sc.Test.End == "cancel" && j.kind == "error" && out.Err == nil && !out.HasIntentErrors && out.ConvErr == nil && out.EndErr != nil {
					// the transaction was applied and the fault hit its cancellation: the cancellation is what is repeated
					if err := w.RetryEnd(out, j.sc.Test); err != nil {
						add("retry-refused", fmt.Sprintf("repeating the cancellation after the fault was refused: %v (first attempt: %v)", err, out.EndErr))
					} else if fin, err := w.Snapshot(); err != nil {
						add("stores-unreadable", err.Error())
					} else {
						if fin.IntendedKey() != r.final.IntendedKey() {
							add("retry-intended-differs", "intent store after the repeated cancellation differs from the fault-free run:\nfault-free:\n"+r.final.IntendedKey()+"after retry:\n"+fin.IntendedKey())
						}
						if d := diffMaps(r.final.Device, fin.Device); d != "" {
							add("retry-device-differs", "device after the repeated cancellation differs from the fault-free run: "+d)
						}
						if id, _ := w.DS.VerifOpenTransaction(); id != "" {
							add("locked-after-retry", "transaction "+id+" is still registered after the repeated cancellation")
						}
					}
					w.Close()
					mu.Lock()
					evals++
					kindsSeen[j.kind+":"+callKind+":in-cancel"]++
					distinct[fmt.Sprintf("%s|%s|%s|cancel", j.sc.Name, j.kind, callKind)] = true
					mu.Unlock()
					continue
				}
				out2 := w.Apply(j.sc.Test)
				if out2.Rejected() {
					add("retry-refused", fmt.Sprintf("repeating the request after the fault was refused: err=%v conv=%v intentErrors=%v panic=%q", out2.Err, out2.ConvErr, intentErrors(out2), out2.Panic))
				} else {
					fin, err := w.Snapshot()
					if err != nil {
						add("stores-unreadable", err.Error())
					} else {
						if fin.IntendedKey() != r.final.IntendedKey() {
							add("retry-intended-differs", "intent store after the retry differs from the fault-free run:\nfault-free:\n"+r.final.IntendedKey()+"after retry:\n"+fin.IntendedKey())
						}
						if d := diffMaps(r.final.Device, fin.Device); d != "" {
							add("retry-device-differs", "device after the retry differs from the fault-free run: "+d)
						}
					}
				}
				w.Close()
				mu.Lock()
				evals++
				kindsSeen[j.kind+":"+callKind]++
				distinct[fmt.Sprintf("%s|%s|%s|err=%v", j.sc.Name, j.kind, callKind, out.Err != nil)] = true
				if len(samples) < 8 && j.k%7 == 3 {
					samples = append(samples, cas)
				}
				mu.Unlock()
			}
		}()
	}
	for _, j := range jobs {
		ch <- j
	}
	close(ch)
	wg.Wait()
	var fps []string
	for k, n := range kindsSeen {
		fps = append(fps, fmt.Sprintf("%s x%d", k, n))
	}
	sort.Strings(fps)
	return rep.Finish(map[string]any{
		"evaluations":         evals,
		"distinct_nontrivial": len(distinct),
		"rule":                "for each of 10 scenarios the last transaction is run fault-free to learn its collaborator call sequence c1..cN; then for every k the run is repeated with exactly call k failing (error) and with a restart at call k (k and all later calls cut off, Datastore rebuilt), followed by a retry; a case is distinct by (scenario, fault kind, call kind, whether TransactionSet returned an error)",
		"samples":             samples,
		"fault_points":        fps,
		"scenarios":           len(c07Scenarios()),
		"exhaustive":          true,
	})
}

func diffMaps(a, b map[string]string) string {
	var ds []string
	for k, v := range a {
		if bv, ok := b[k]; !ok {
			ds = append(ds, fmt.Sprintf("missing %s=%s", k, v))
		} else if bv != v {
			ds = append(ds, fmt.Sprintf("%s: %s != %s", k, v, bv))
		}
	}
	for k, v := range b {
		if _, ok := a[k]; !ok {
			ds = append(ds, fmt.Sprintf("extra %s=%s", k, v))
		}
	}
	sort.Strings(ds)
	if len(ds) == 0 {
		return ""
	}
	if len(ds) > 6 {
		ds = append(ds[:6], "...")
	}
	return fmt.Sprint(ds)
}

func init() {
	Checks["C07"] = func([]string) int { return runC07() }
}
