package h

import (
	"fmt"
	"regexp"
	"sort"
	"strconv"
	"strings"
	"unicode/utf8"
)

// Reference validator for the explicit constraints of the universe schema (/verif/schema/verif-vm.yang).
// Input: merged configuration, canonical path -> canonical value. Output: violated constraint classes.
// Classes follow the validator switches of the implementation:
//   mandatory, leafref, min-max (leaf-list min/max-elements), pattern, must, length, range

var hostnamePattern = regexp.MustCompile(`^(?:[a-z][a-z0-9/_:= \[\]-]*)$`)

type RefViolation struct {
	Class string
	Path  string
	Msg   string
}

func llElems(canon string) []string {
	canon = strings.TrimPrefix(canon, "[")
	canon = strings.TrimSuffix(canon, "]")
	if canon == "" {
		return nil
	}
	return strings.Split(canon, ",")
}

// listEntries returns the canonical prefixes "/list[k=v]" present in cfg for the given top-level list.
func listEntries(cfg map[string]string, list string) map[string]bool {
	r := map[string]bool{}
	pre := "/" + list + "["
	for p := range cfg {
		if strings.HasPrefix(p, pre) {
			if i := strings.Index(p, "]/"); i > 0 {
				// single-key lists only (if, ifx, mand)
				r[p[:i+1]] = true
			}
		}
	}
	return r
}

// RefValidate evaluates the universe constraints on a merged configuration.
func RefValidate(cfg map[string]string) []RefViolation {
	var vs []RefViolation
	add := func(class, path, msg string) { vs = append(vs, RefViolation{class, path, msg}) }
	inRange := func(p string, lo, hi int64, class string) {
		v, ok := cfg[p]
		if !ok {
			return
		}
		n, err := strconv.ParseInt(v, 10, 64)
		if err != nil || n < lo || n > hi {
			add(class, p, fmt.Sprintf("%s not in %d..%d", v, lo, hi))
		}
	}
	// sys
	if v, ok := cfg["/sys/hostname"]; ok {
		if n := utf8.RuneCountInString(v); n < 1 || n > 12 {
			add("length", "/sys/hostname", fmt.Sprintf("length %d not in 1..12", n))
		}
		if !hostnamePattern.MatchString(v) {
			add("pattern", "/sys/hostname", fmt.Sprintf("%q does not match the pattern", v))
		}
	}
	inRange("/sys/mtu", 68, 9000, "range")
	if v, ok := cfg["/sys/dns"]; ok {
		if n := len(llElems(v)); n > 3 {
			add("min-max", "/sys/dns", fmt.Sprintf("%d elements, max-elements 3", n))
		}
	}
	// if
	ifNames := map[string]bool{}
	for e := range listEntries(cfg, "if") {
		name := strings.TrimSuffix(strings.TrimPrefix(e, "/if[name="), "]")
		ifNames[name] = true
	}
	for p, v := range cfg {
		if strings.HasPrefix(p, "/if[") && strings.HasSuffix(p, "/vlan") {
			n, err := strconv.ParseInt(v, 10, 64)
			if err != nil || n < 1 || n > 4094 {
				add("range", p, v+" not in 1..4094")
			}
		}
		if strings.HasPrefix(p, "/if[") && strings.HasSuffix(p, "/peer") {
			if !ifNames[v] {
				add("leafref", p, "no if entry named "+v)
			}
		}
	}
	// ok2/href: leafref ../../sys/hostname
	for p, v := range cfg {
		if strings.HasPrefix(p, "/ok2[") && strings.HasSuffix(p, "/href") {
			if hn, ok := cfg["/sys/hostname"]; !ok || hn != v {
				add("leafref", p, "no sys/hostname with value "+v)
			}
		}
	}
	// mand / dk: mandatory child m of every existing entry
	for e := range listEntries(cfg, "mand") {
		if _, ok := cfg[e+"/m"]; !ok {
			add("mandatory", e+"/m", "mandatory leaf m missing")
		}
	}
	// refs
	if v, ok := cfg["/refs/uplink"]; ok && !ifNames[v] {
		add("leafref", "/refs/uplink", "no if entry named "+v)
	}
	if _, ok := cfg["/refs/guard"]; ok {
		mtu := int64(1500) // default of sys/mtu (sys is a non-presence container: the default is in effect)
		if v, ok := cfg["/sys/mtu"]; ok {
			mtu, _ = strconv.ParseInt(v, 10, 64)
		}
		if !(mtu > 1000) {
			add("must", "/refs/guard", fmt.Sprintf("../../sys/mtu > 1000 is false (mtu=%d)", mtu))
		}
	}
	// dm/strict (default on): must ". = 'off' or ../name"; the default is in effect as soon as dm holds anything
	dmAny := false
	for p := range cfg {
		if strings.HasPrefix(p, "/dm/") {
			dmAny = true
		}
	}
	if dmAny {
		strict := "on"
		if v, ok := cfg["/dm/strict"]; ok {
			strict = v
		}
		if _, named := cfg["/dm/name"]; strict != "off" && !named {
			add("must", "/dm/strict", ". = 'off' or ../name is false (strict="+strict+", no name)")
		}
	}
	if v, ok := cfg["/refs/ll"]; ok {
		els := llElems(v)
		if len(els) < 1 || len(els) > 2 {
			add("min-max", "/refs/ll", fmt.Sprintf("%d elements, allowed 1..2", len(els)))
		}
		for _, e := range els {
			n, err := strconv.ParseInt(e, 10, 64)
			if err != nil || n < 1 || n > 9 {
				add("range", "/refs/ll", e+" not in 1..9")
			}
		}
	}
	sort.Slice(vs, func(i, j int) bool { return vs[i].Class+vs[i].Path < vs[j].Class+vs[j].Path })
	return vs
}

// RefClasses returns the set of violated classes.
func RefClasses(cfg map[string]string) map[string]bool {
	r := map[string]bool{}
	for _, v := range RefValidate(cfg) {
		r[v.Class] = true
	}
	return r
}
