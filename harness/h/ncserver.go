package h

import (
	"fmt"
	"io"
	"regexp"
	"strings"
	"sync"
	"time"

	scraplinetconf "github.com/scrapli/scrapligo/driver/netconf"
	"github.com/scrapli/scrapligo/driver/options"
	"github.com/scrapli/scrapligo/transport"

	"github.com/sdcio/data-server/pkg/datastore/target/netconf"
	ncscrapli "github.com/sdcio/data-server/pkg/datastore/target/netconf/driver/scrapligo"
)

// ncServer is an in-memory NETCONF 1.0 server behind scrapligo's transport interface. It plays the device for the
// production scrapligo adapter: the candidate model and the fault plan are those of FakeNC (the same object the
// oracle inspects), the difference is that replies travel as NETCONF messages through the real scrapligo driver
// and the real adapter (pkg/datastore/target/netconf/driver/scrapligo).
type ncServer struct {
	f    *FakeNC
	mu   sync.Mutex
	cond *sync.Cond
	out  []byte // bytes the client can read
	in   []byte // bytes written by the client, not yet a complete message
	eof  bool
	open bool
}

const nc10Delim = "]]>]]>"

func newNCServer(f *FakeNC) *ncServer {
	s := &ncServer{f: f}
	s.cond = sync.NewCond(&s.mu)
	return s
}

func (s *ncServer) Open(a *transport.Args) error {
	s.mu.Lock()
	defer s.mu.Unlock()
	s.open = true
	s.out = append(s.out, []byte(`<?xml version="1.0" encoding="UTF-8"?><hello xmlns="urn:ietf:params:xml:ns:netconf:base:1.0"><capabilities><capability>urn:ietf:params:netconf:base:1.0</capability><capability>urn:ietf:params:netconf:capability:candidate:1.0</capability></capabilities><session-id>7</session-id></hello>`+nc10Delim+"\n")...)
	s.cond.Broadcast()
	return nil
}

func (s *ncServer) Close() error {
	s.mu.Lock()
	defer s.mu.Unlock()
	s.open = false
	s.eof = true
	s.cond.Broadcast()
	return nil
}

func (s *ncServer) IsAlive() bool {
	s.mu.Lock()
	open, eof := s.open, s.eof
	s.mu.Unlock()
	if !open || eof {
		return false
	}
	return s.f.IsAlive()
}

// Read blocks until bytes are available (like a socket) or the connection is gone.
func (s *ncServer) Read(n int) ([]byte, error) {
	s.mu.Lock()
	defer s.mu.Unlock()
	for len(s.out) == 0 && !s.eof {
		s.cond.Wait()
	}
	if len(s.out) == 0 {
		return nil, io.EOF
	}
	if n <= 0 || n > len(s.out) {
		n = len(s.out)
	}
	b := append([]byte{}, s.out[:n]...)
	s.out = s.out[n:]
	return b, nil
}

var (
	reMsgID  = regexp.MustCompile(`message-id="([^"]*)"`)
	reTarget = regexp.MustCompile(`(?s)<target>\s*<([a-z]+)\s*/?>`)
	reConfig = regexp.MustCompile(`(?s)<config>(.*)</config>`)
)

func (s *ncServer) Write(b []byte) error {
	s.mu.Lock()
	if s.eof {
		s.mu.Unlock()
		return io.ErrClosedPipe
	}
	s.in = append(s.in, b...)
	var msgs []string
	for {
		i := strings.Index(string(s.in), nc10Delim)
		if i < 0 {
			break
		}
		msgs = append(msgs, string(s.in[:i]))
		s.in = s.in[i+len(nc10Delim):]
	}
	s.mu.Unlock()
	for _, m := range msgs {
		s.handle(m)
	}
	return nil
}

func (s *ncServer) reply(id, body string) {
	s.mu.Lock()
	s.out = append(s.out, []byte(fmt.Sprintf(`<rpc-reply xmlns="urn:ietf:params:xml:ns:netconf:base:1.0" message-id="%s">%s</rpc-reply>%s`+"\n", id, body, nc10Delim))...)
	s.cond.Broadcast()
	s.mu.Unlock()
}

func (s *ncServer) hangUp() {
	s.mu.Lock()
	s.eof = true
	s.cond.Broadcast()
	s.mu.Unlock()
}

func (s *ncServer) rpcError(severity, msg string) string {
	if s.f.Plan.Shape == "prefixed" && s.f.Armed {
		return `<nc:rpc-error xmlns:nc="urn:ietf:params:xml:ns:netconf:base:1.0"><nc:error-type>application</nc:error-type><nc:error-tag>operation-failed</nc:error-tag><nc:error-severity>` + severity + `</nc:error-severity><nc:error-message>` + msg + `</nc:error-message></nc:rpc-error>`
	}
	return `<rpc-error><error-type>application</error-type><error-tag>operation-failed</error-tag><error-severity>` + severity + `</error-severity><error-message>` + msg + `</error-message></rpc-error>`
}

// handle answers one client message according to the model's plan.
func (s *ncServer) handle(m string) {
	if !strings.Contains(m, "<rpc") {
		return // the client's hello
	}
	id := ""
	if mm := reMsgID.FindStringSubmatch(m); mm != nil {
		id = mm[1]
	}
	switch {
	case strings.Contains(m, "<edit-config"):
		tgt := "running"
		if mm := reTarget.FindStringSubmatch(m); mm != nil {
			tgt = mm[1]
		}
		cfg := ""
		if mm := reConfig.FindStringSubmatch(m); mm != nil {
			cfg = mm[1]
		}
		// the model decides (and records the call, the candidate content and the fault)
		_, err := s.f.EditConfig(tgt, cfg)
		mode := s.f.lastEditMode()
		switch {
		case mode == "eof":
			s.hangUp()
		case mode == "warn":
			s.reply(id, s.rpcError("warning", "deprecated")+"<ok/>")
		case mode == "warn+err":
			s.reply(id, s.rpcError("warning", "deprecated")+s.rpcError("error", "bad value"))
		case err != nil:
			s.reply(id, s.rpcError("error", "bad value"))
		default:
			s.reply(id, "<ok/>")
		}
	case strings.Contains(m, "<commit"):
		err := s.f.Commit()
		switch {
		case err != nil && strings.Contains(err.Error(), "EOF"):
			s.hangUp()
		case err != nil:
			s.reply(id, s.rpcError("error", "commit failed"))
		default:
			s.reply(id, "<ok/>")
		}
	case strings.Contains(m, "<discard-changes"):
		if err := s.f.Discard(); err != nil {
			s.reply(id, s.rpcError("error", "discard failed"))
		} else {
			s.reply(id, "<ok/>")
		}
	case strings.Contains(m, "<get-config"), strings.Contains(m, "<get>"), strings.Contains(m, "<get "):
		s.reply(id, "<data/>")
	default:
		s.reply(id, "<ok/>")
	}
}

// newScrapligoDriver opens a real scrapligo NETCONF driver over the in-memory server and wraps it in the production adapter.
func newScrapligoDriver(f *FakeNC) (netconf.Driver, *scraplinetconf.Driver, error) {
	d, err := scraplinetconf.NewDriver("verif-device",
		options.WithAuthNoStrictKey(),
		options.WithNetconfForceSelfClosingTags(),
		options.WithTransportType(transport.FileTransport),
		options.WithPort(830),
		options.WithTimeoutOps(2*time.Second),
		options.WithNetconfPreferredVersion("1.0"),
	)
	if err != nil {
		return nil, nil, err
	}
	d.Transport.Impl = newNCServer(f)
	if err := d.Open(); err != nil {
		return nil, nil, err
	}
	return ncscrapli.NewForVerif(d), d, nil
}
