package h

import (
	"fmt"
	"sort"
	"strings"
)

// C01Checker: device converges to the highest-precedence merge of all live intents.
type C01Checker struct{}

func (C01Checker) Check(s *Step) []*Violation {
	var vs []*Violation
	if s.Out.Panic != "" {
		return []*Violation{{Clause: "panic", Sig: "panic:" + opKinds(s.Op), Detail: "TransactionSet panicked: " + s.Out.Panic}}
	}
	if !s.Accepted {
		return nil
	}
	if s.Out.EndErr != nil {
		vs = append(vs, &Violation{Clause: "confirm", Sig: "confirm-error:" + opKinds(s.Op), Detail: fmt.Sprintf("confirm of an applied transaction failed: %v", s.Out.EndErr)})
	}
	m := s.ModelPost
	dev := s.W.Dev.Snapshot()
	exp := m.Expected()
	// (1) every path defined by some live intent carries the ruling value
	for _, p := range sortedKeys(exp) {
		got, ok := dev[p]
		if !ok || got != exp[p] {
			_, owner, _ := m.Ruling(p)
			g := "<absent>"
			if ok {
				g = got
			}
			vs = append(vs, &Violation{Clause: "ruling-value", Sig: "ruling-value:" + SchemaClass(p),
				Detail: fmt.Sprintf("device has %s=%s, expected %q (ruling intent %s); live=%s", p, g, exp[p], owner, m.Key())})
		}
	}
	// (2) paths defined only by intents that are no longer live / no longer contain them are absent
	for _, p := range sortedKeysB(m.Ever) {
		if _, live := exp[p]; live || m.DontCare[p] {
			continue
		}
		if got, ok := dev[p]; ok {
			if got == "<empty>" && hasExpectedBelow(exp, p) {
				// a presence container necessarily exists while a live intent defines something below it
				continue
			}
			vs = append(vs, &Violation{Clause: "stale-path", Sig: "stale-path:" + SchemaClass(p),
				Detail: fmt.Sprintf("device still carries %s=%s although no live intent defines it; live=%s", p, got, m.Key())})
		}
	}
	// (3) configuration outside touched list entries / never-defined plain-container leaves is untouched
	for _, p := range sortedKeys(m.Initial) {
		if m.Ever[p] || m.InTouchedEntry(p) {
			continue
		}
		got, ok := dev[p]
		if !ok || got != m.Initial[p] {
			g := "<absent>"
			if ok {
				g = got
			}
			vs = append(vs, &Violation{Clause: "untouched", Sig: "untouched:" + SchemaClass(p),
				Detail: fmt.Sprintf("unmanaged %s was %q initially, device now has %s", p, m.Initial[p], g)})
		}
	}
	// (3b) nothing appears on the device that neither an intent defined nor was there initially
	for _, p := range sortedKeys(dev) {
		if _, ok := m.Initial[p]; ok || m.Ever[p] {
			continue
		}
		vs = append(vs, &Violation{Clause: "untouched", Sig: "foreign-path:" + SchemaClass(p),
			Detail: fmt.Sprintf("device carries %s=%s which no intent ever defined and which was not configured initially", p, dev[p])})
	}
	return vs
}

// C02Checker: the intent store holds exactly each owner's last accepted intent.
type C02Checker struct{}

func (C02Checker) Check(s *Step) []*Violation {
	var vs []*Violation
	if s.Out.Panic != "" || !s.Accepted {
		return nil
	}
	if s.Post == nil {
		return []*Violation{{Clause: "readable", Sig: "intended-unreadable", Detail: "intended store cannot be read back consistently after the transaction"}}
	}
	want := s.ModelPost.ExpectedIntended()
	got := map[string]int{}
	for _, e := range s.Post.Intended {
		got[e.Key()]++
	}
	named := map[string]bool{}
	for _, is := range s.Op.Intents {
		named[is.Owner] = true
	}
	for _, e := range s.Post.Intended {
		k := e.Key()
		if !want[k] {
			kind := "superseded-entry"
			if !named[e.Owner] {
				kind = "foreign-intent-changed"
			}
			vs = append(vs, &Violation{Clause: kind, Sig: kind + ":" + SchemaClass(e.Path),
				Detail: fmt.Sprintf("intended store holds %s which is not part of any live intent version; live=%s", k, s.ModelPost.Key())})
		} else if got[k] > 1 {
			vs = append(vs, &Violation{Clause: "duplicate-entry", Sig: "duplicate-entry:" + SchemaClass(e.Path),
				Detail: fmt.Sprintf("intended store holds %d copies of %s", got[k], k)})
			got[k] = 1
		}
	}
	for _, k := range sortedKeysB(want) {
		if got[k] == 0 {
			parts := strings.SplitN(k, "|", 3)
			kind := "missing-entry"
			if len(parts) > 1 && !named[parts[1]] {
				kind = "foreign-intent-changed"
			}
			vs = append(vs, &Violation{Clause: kind, Sig: kind + ":" + SchemaClass(parts[0]),
				Detail: fmt.Sprintf("intended store lacks %s; live=%s", k, s.ModelPost.Key())})
		}
	}
	return vs
}

func opKinds(op Op) string {
	var ks []string
	for _, i := range op.Intents {
		switch {
		case i.Orphan:
			ks = append(ks, "orphan")
		case i.Delete:
			ks = append(ks, "delete")
		default:
			ks = append(ks, "set")
		}
	}
	if op.Replace != nil {
		ks = append(ks, "replace")
	}
	return strings.Join(ks, "+")
}

func sortedKeys(m map[string]string) []string {
	ks := make([]string, 0, len(m))
	for k := range m {
		ks = append(ks, k)
	}
	sort.Strings(ks)
	return ks
}

func sortedKeysB(m map[string]bool) []string {
	ks := make([]string, 0, len(m))
	for k := range m {
		ks = append(ks, k)
	}
	sort.Strings(ks)
	return ks
}

func hasExpectedBelow(exp map[string]string, p string) bool {
	for q := range exp {
		if strings.HasPrefix(q, p+"/") {
			return true
		}
	}
	return false
}
