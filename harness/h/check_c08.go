package h

import (
	"fmt"
	"sort"
	"strings"
)

// ChoiceFragments populate the choices of the universe (top-level, nested, inside a list) and the
// non-members whose names begin with a member's name.
func ChoiceFragments() map[string]*Fragment {
	fs := []*Fragment{
		{Name: "ca1", Leaves: []Leaf{leaf("A1", "mode", "a")}},
		{Name: "ca2", Leaves: []Leaf{leaf("A2", "mode", "a"), leaf("AB", "mode", "ab")}},
		{Name: "cab", Leaves: []Leaf{leaf("AB2", "mode", "ab")}},
		{Name: "cpc", Leaves: []Leaf{leafEmpty("mode", "pc")}},
		// a contribution below the presence container of case c, without the container's own entry
		{Name: "cpvo", Leaves: []Leaf{leaf("z", "mode", "pc", "pv")}},
		{Name: "cb1", Leaves: []Leaf{leaf("B1", "mode", "b")}},
		{Name: "cbx", Leaves: []Leaf{leaf("B2", "mode", "b"), leaf("X1", "mode", "x")}},
		{Name: "cby", Leaves: []Leaf{leaf("Y1", "mode", "y")}},
		{Name: "cnon", Leaves: []Leaf{leaf("NM", "mode", "abx")}},
		{Name: "ie", Leaves: []Leaf{leaf("1g", "if", e1, "eth-speed"), leaf("full", "if", e1, "eth-duplex")}},
		{Name: "il", Leaves: []Leaf{leaf("active", "if", e1, "lag", "mode"), leafLL([]string{"e2"}, "if", e1, "lag", "members")}},
		{Name: "inon", Leaves: []Leaf{leaf("nm", "if", e1, "eth-speedx"), leaf("d", "if", e1, "descr")}},
		{Name: "il10", Leaves: []Leaf{leaf("passive", "if", e10, "lag", "mode"), leaf("10g", "if", e1, "eth-speed")}},
	}
	m := map[string]*Fragment{}
	for _, f := range fs {
		m[f.Name] = f
	}
	return m
}

var ChoiceFragOrder = []string{"ca1", "ca2", "cab", "cpc", "cpvo", "cb1", "cbx", "cby", "cnon", "ie", "il", "inon", "il10"}

func choiceFrags() (map[string]*Fragment, []string) {
	return ChoiceFragments(), ChoiceFragOrder
}

func choiceMulti() []Op {
	return []Op{
		{Intents: []IntentSpec{{Owner: "A", Prio: 10, Frag: "ca1"}, {Owner: "B", Prio: 20, Frag: "cb1"}}},
		{Intents: []IntentSpec{{Owner: "B", Prio: 20, Frag: "cbx"}, {Owner: "C", Prio: 30, Frag: "cby"}}},
		{Intents: []IntentSpec{{Owner: "A", Prio: 10, Delete: true}, {Owner: "C", Prio: 30, Frag: "ca2"}}},
		{Intents: []IntentSpec{{Owner: "A", Prio: 25, Frag: "il"}, {Owner: "B", Prio: 20, Frag: "ie"}}},
		{Intents: []IntentSpec{{Owner: "A", Prio: 10, Delete: true}, {Owner: "B", Prio: 20, Delete: true}}},
		{Intents: []IntentSpec{{Owner: "B", Prio: 20, Frag: "cnon"}, {Owner: "C", Prio: 30, Frag: "cb1"}}},
	}
}

func choiceInitials() []*Initial {
	return []*Initial{
		{Name: "R0"},
		{Name: "Rc", Leaves: []Leaf{ // unmanaged non-members in running
			leaf("run", "mode", "abx"),
			leaf("run", "if", e1, "eth-speedx"),
		}},
	}
}

type choiceSlot struct{ inst, choice, cas string }

func (c choiceSlot) key() string { return c.inst + "#" + c.choice }

// choiceSlots maps a canonical path to the (choice instance, case) pairs it belongs to.
func choiceSlots(canon string) []choiceSlot {
	var r []choiceSlot
	switch {
	case strings.HasPrefix(canon, "/mode/"):
		m := strings.SplitN(strings.TrimPrefix(canon, "/mode/"), "/", 2)[0]
		switch m {
		case "a", "ab":
			r = append(r, choiceSlot{"/mode", "top", "a"})
		case "b":
			r = append(r, choiceSlot{"/mode", "top", "b"})
		case "pc":
			r = append(r, choiceSlot{"/mode", "top", "c"})
		case "x", "y":
			r = append(r, choiceSlot{"/mode", "top", "b"}, choiceSlot{"/mode", "nested", m})
		}
	case strings.HasPrefix(canon, "/if["):
		end := strings.Index(canon, "]/")
		if end < 0 {
			return nil
		}
		inst := canon[:end+1]
		m := strings.SplitN(canon[end+2:], "/", 2)[0]
		switch m {
		case "eth-speed", "eth-duplex":
			r = append(r, choiceSlot{inst, "kind", "eth"})
		case "lag":
			r = append(r, choiceSlot{inst, "kind", "lag"})
		}
	}
	return r
}

// C08Checker: at most one case of a choice is ever configured, namely the one with the highest-precedence contribution.
type C08Checker struct{}

func (C08Checker) Check(s *Step) []*Violation {
	if s.Out.Panic != "" {
		return []*Violation{{Clause: "panic", Sig: "panic:" + opKinds(s.Op), Detail: "TransactionSet panicked: " + s.Out.Panic}}
	}
	if !s.Accepted {
		return nil
	}
	var vs []*Violation
	m := s.ModelPost
	dev := s.W.Dev.Snapshot()
	// winner per choice instance
	type win struct {
		cas  string
		prio int32
		via  string // schema class of the contributing path
		own  string // owner of the winning contribution
	}
	named := map[string]bool{}
	for _, is := range s.Op.Intents {
		named[is.Owner] = true
	}
	mode := "single"
	if len(s.Op.Intents) > 1 {
		mode = "multi"
	}
	tag := func(sl choiceSlot, w win) string {
		t := sl.choice + ":" + mode
		if strings.HasSuffix(w.via, "/x") || strings.HasSuffix(w.via, "/y") {
			t += ":via-nested"
		}
		if w.own != "" && !named[w.own] {
			t += ":winner-not-in-request"
		}
		return t
	}
	// stale presence container (C01's recorded finding seen through a choice): the device already carried the presence
	// container of a case before this transaction although no live intent defined the container itself any more (its
	// defining entry had been dropped while a child below it stayed); such a container is never deleted again
	stale := func(p string) string {
		if p != "/mode/pc" || s.Pre == nil {
			return ""
		}
		if _, had := s.Pre.Device[p]; !had {
			return ""
		}
		for _, li := range s.ModelPre.Live {
			if _, def := li.Defined[p]; def {
				return ""
			}
		}
		return ":stale-presence"
	}
	winners := map[string]win{}
	for owner, li := range m.Live {
		for p := range li.Defined {
			for _, sl := range choiceSlots(p) {
				w, ok := winners[sl.key()]
				if !ok || li.Prio < w.prio {
					winners[sl.key()] = win{sl.cas, li.Prio, SchemaClass(p), owner}
				}
			}
		}
	}
	// device nodes of choices belong to the winning case only
	for _, p := range sortedKeys(dev) {
		for _, sl := range choiceSlots(p) {
			w, ok := winners[sl.key()]
			switch {
			case !ok:
				vs = append(vs, &Violation{Clause: "case-node-without-contribution", Sig: "case-node-without-contribution:" + tag(sl, w) + stale(p) + ":" + SchemaClass(p),
					Detail: fmt.Sprintf("device carries %s=%s (case %s of choice %s) although no live intent contributes to that choice; live=%s", p, dev[p], sl.cas, sl.key(), m.Key())})
			case w.cas != sl.cas:
				t := tag(sl, w)
				// known structural weaknesses are told apart from everything else
				hadPath, inCase := false, false
				for _, is := range s.Op.Intents {
					if old := s.ModelPre.Live[is.Owner]; old != nil {
						if _, had := old.Defined[p]; had {
							hadPath = true
						}
						for q := range old.Defined {
							for _, qs := range choiceSlots(q) {
								if qs.key() == sl.key() && qs.cas == sl.cas {
									inCase = true
								}
							}
						}
					}
				}
				casesSeen := map[string]bool{}
				for _, mm := range []*Model{s.ModelPre, m} {
					for _, li := range mm.Live {
						for q := range li.Defined {
							for _, qs := range choiceSlots(q) {
								if qs.key() == sl.key() {
									casesSeen[qs.cas] = true
								}
							}
						}
					}
				}
				// does a live intent outside the request also contribute to the losing case?
				otherHolds := false
				for owner, li := range m.Live {
					inReq := false
					for _, is := range s.Op.Intents {
						if is.Owner == owner {
							inReq = true
						}
					}
					if inReq {
						continue
					}
					for q := range li.Defined {
						for _, qs := range choiceSlots(q) {
							if qs.key() == sl.key() && qs.cas == sl.cas {
								otherHolds = true
							}
						}
					}
				}
				switch {
				case hadPath && otherHolds:
					t += ":requester-had-loser-path:loser-also-held-by-other"
				case hadPath:
					t += ":requester-had-loser-path"
				case inCase && len(casesSeen) >= 3:
					t += ":requester-was-in-losing-case:three-cases"
				case inCase:
					t += ":requester-was-in-losing-case"
				}
				vs = append(vs, &Violation{Clause: "losing-case-present", Sig: "losing-case-present:" + t + stale(p) + ":" + SchemaClass(p),
					Detail: fmt.Sprintf("device carries %s=%s of case %s, but the highest-precedence contribution to choice %s is in case %s (priority %d); live=%s", p, dev[p], sl.cas, sl.key(), w.cas, w.prio, m.Key())})
			}
		}
	}
	// members of the winning case carry the ruling value
	exp := m.Expected()
	for _, p := range sortedKeys(exp) {
		slots := choiceSlots(p)
		if len(slots) == 0 {
			continue
		}
		wins := true
		for _, sl := range slots {
			if winners[sl.key()].cas != sl.cas {
				wins = false
			}
		}
		if !wins {
			continue
		}
		// ruling value among the live intents defining p
		if got, ok := dev[p]; !ok || got != exp[p] {
			g := "<absent>"
			if ok {
				g = got
			}
			names := make([]string, 0, len(slots))
			for _, sl := range slots {
				names = append(names, tag(sl, winners[sl.key()]))
			}
			sort.Strings(names)
			if _, ro, _ := m.Ruling(p); ro != "" && !named[ro] {
				names = append(names, "value-owner-not-in-request")
			}
			vs = append(vs, &Violation{Clause: "winning-case-value", Sig: "winning-case-value:" + strings.Join(names, "+") + ":" + SchemaClass(p),
				Detail: fmt.Sprintf("device has %s=%s, expected %q: it belongs to the winning case; live=%s", p, g, exp[p], m.Key())})
		}
	}
	// non-members keep behaving as plain leaves (C01 clause 1 restricted to them)
	for _, p := range sortedKeys(exp) {
		if len(choiceSlots(p)) > 0 {
			continue
		}
		if got, ok := dev[p]; !ok || got != exp[p] {
			vs = append(vs, &Violation{Clause: "non-member-value", Sig: "non-member-value:" + SchemaClass(p),
				Detail: fmt.Sprintf("device has %s=%q (present=%v), expected %q; live=%s", p, got, ok, exp[p], m.Key())})
		}
	}
	return vs
}
