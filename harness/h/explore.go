package h

import (
	"crypto/sha1"
	"fmt"
	"os"
	"runtime"
	"sync"
	"sync/atomic"
	"time"

	"github.com/sdcio/cache/proto/cachepb"
	"github.com/sdcio/data-server/pkg/cache"
)

// Initial is one initial running configuration.
type Initial struct {
	Name   string
	Leaves []Leaf
	State  []Leaf // leaves preloaded into the STATE store (oper data)
}

func (i *Initial) Map() map[string]string {
	return (&Fragment{Leaves: i.Leaves}).Defined()
}

// Step is what a checker sees for one explored transition.
type Step struct {
	Init      *Initial
	Hist      []Op
	Op        Op
	Probe     bool
	W         *World
	ModelPre  *Model
	ModelPost *Model
	Pre, Post *State
	Out       *Outcome
	Accepted  bool
	E         *E1
	CC        cache.Client // the worker's private cache (for replicas)
}

// Case describes the step in a replayable form.
func (s *Step) Case() map[string]any {
	c := map[string]any{"initial": s.Init.Name, "history": opsStrings(s.Hist), "op": s.Op.String(), "history_ops": s.Hist, "op_spec": s.Op, "probe": s.Probe}
	if s.E != nil && s.E.Phase != "" {
		c["phase"] = s.E.Phase
	}
	return c
}

func opsStrings(ops []Op) []string {
	r := make([]string, 0, len(ops))
	for _, o := range ops {
		r = append(r, o.String())
	}
	return r
}

// Checker is a per-property oracle plugged into the history search.
type Checker interface {
	Check(s *Step) []*Violation
}

// E1 is the explicit-state search over operation histories on the real implementation.
type E1 struct {
	U        *Universe
	Cache    cache.Client // used for the initial states only; workers own a private badger DB each
	Initials []*Initial
	Alphabet []Op                      // ops that extend the frontier
	Probes   func(m *Model) []Op       // extra ops checked from every state but not extended (may be nil)
	Depth    int                       // max history length explored (alphabet ops)
	Frags    map[string]*Fragment
	Opts     WorldOpts
	Checker  Checker
	Rep      *Reporter
	Workers  int
	Deadline time.Time // watchdog: stop expanding after this (exhaustive:false)
	Phase    string    // name of the extra phase this search belongs to (recorded in violation cases for replay)
	NoPrune  bool      // extend states reached through violating steps too (for read-only oracles, whose violations have no consequences)

	// statistics
	States      int64
	Transitions int64
	ProbeTrans  int64
	Accepted    int64
	Rejected    int64
	Panics      int64
	DupHits     int64
	PrunedViolating int64
	DivergedReplays int64
	MaxDepthDone int
	ProbedLeaves bool
	Capped      bool
	Outcomes    sync.Map // distinct outcome classes
	Samples     []any
	smu         sync.Mutex
}

type node struct {
	init *Initial
	hist []Op
	acc  []bool
	keys [][20]byte // canonical state key after each step of hist (replays must reproduce them)
}

// errReplayDiverged marks a replay whose intermediate states differ from the recorded ones although the
// accept/reject flags match: the implementation behaved differently on the same history (Go map iteration order).
var errReplayDiverged = fmt.Errorf("replay reached a different state than recorded")

// Replay builds a fresh world and replays a history, checking that acceptance matches the recording.
func (e *E1) Replay(init *Initial, hist []Op, acc []bool) (*World, *Model, error) {
	return e.ReplayOn(e.Cache, init, hist, acc)
}

// ReplayOn is Replay on a given cache client.
func (e *E1) ReplayOn(cc cache.Client, init *Initial, hist []Op, acc []bool) (*World, *Model, error) {
	return e.replayChecked(cc, &node{init: init, hist: hist, acc: acc})
}

// replayChecked replays a node's history and verifies accept flags and (if recorded) the state keys.
func (e *E1) replayChecked(cc cache.Client, n *node) (*World, *Model, error) {
	init, hist, acc := n.init, n.hist, n.acc
	opts := e.Opts
	opts.Fragments = e.Frags
	w, err := NewWorld(e.U, cc, init.Leaves, opts)
	if err != nil {
		return nil, nil, err
	}
	if len(init.State) > 0 {
		if err := w.PreloadStore(cachepb.Store_STATE, init.State); err != nil {
			w.Close()
			return nil, nil, err
		}
	}
	m := NewModel(init.Map())
	for i, op := range hist {
		out := w.Apply(op)
		ok := !out.Rejected() && !op.DryRun
		if acc != nil && acc[i] != ok {
			w.Close()
			return nil, nil, fmt.Errorf("replay divergence at step %d (%s): accepted=%v, recorded %v (err=%v conv=%v panic=%q)", i, op, ok, acc[i], out.Err, out.ConvErr, out.Panic)
		}
		if ok {
			applyEnd(m, op, e.Frags)
		}
		if n.keys != nil {
			st, err := w.Snapshot()
			if err != nil || hashKey(init.Name+"\n"+st.Key()+"\n"+m.Key()) != n.keys[i] {
				w.Close()
				return nil, nil, errReplayDiverged
			}
		}
	}
	return w, m, nil
}

// applyEnd updates the model for an accepted transaction according to how it was ended.
func applyEnd(m *Model, op Op, frags map[string]*Fragment) {
	switch op.End {
	case "", "confirm", "none":
		m.Apply(op, frags)
	case "cancel", "expire":
		// rolled back: the model does not change
	}
}

func hashKey(s string) [20]byte { return sha1.Sum([]byte(s)) }

type taskResult struct {
	skipped  bool
	violated bool
	key      [20]byte
	accepted bool
	n        *node
	op       Op
	probe    bool
	err      error
}

// Run performs the level-synchronous BFS.
func (e *E1) Run() error {
	if e.Workers <= 0 {
		e.Workers = runtime.NumCPU()
	}
	seen := map[[20]byte]bool{}
	var frontier []*node
	for _, in := range e.Initials {
		// the initial state itself
		w, m, err := e.Replay(in, nil, nil)
		if err != nil {
			return err
		}
		st, err := w.Snapshot()
		w.Close()
		if err != nil {
			return err
		}
		k := hashKey(in.Name + "\n" + st.Key() + "\n" + m.Key())
		if !seen[k] {
			seen[k] = true
			frontier = append(frontier, &node{init: in, keys: [][20]byte{}})
		}
	}
	e.States = int64(len(seen))
	for depth := 0; depth <= e.Depth && len(frontier) > 0; depth++ {
		// at the last level only the probes run (they do not extend the frontier), so that every state reached
		// with at most Depth operations is probed
		probesOnly := depth == e.Depth
		if probesOnly && e.Probes == nil {
			break
		}
		type task struct {
			n     *node
			op    Op
			probe bool
		}
		tasks := make(chan task, 1024)
		results := make(chan taskResult, 1024)
		var wg sync.WaitGroup
		var fatal atomic.Value
		for i := 0; i < e.Workers; i++ {
			wg.Add(1)
			go func() {
				defer wg.Done()
				wc := NewWorkerCache()
				defer wc.Close()
				for t := range tasks {
					if fatal.Load() != nil {
						continue
					}
					cc, err := wc.Get()
					if err != nil {
						fatal.Store(err)
						continue
					}
					r := e.runTask(cc, t.n, t.op, t.probe)
					if r.err != nil {
						fatal.Store(r.err)
					}
					results <- r
				}
			}()
		}
		go func() {
			for _, n := range frontier {
				if !e.Deadline.IsZero() && time.Now().After(e.Deadline) {
					e.Capped = true
					break
				}
				if !probesOnly {
					for _, op := range e.Alphabet {
						tasks <- task{n, op, false}
					}
				}
				if e.Probes != nil {
					// probes depend on the model reached by the node: recompute cheaply without a world
					m := NewModel(n.init.Map())
					for i, op := range n.hist {
						if n.acc[i] {
							applyEnd(m, op, e.Frags)
						}
					}
					for _, op := range e.Probes(m) {
						tasks <- task{n, op, true}
					}
				}
			}
			close(tasks)
			wg.Wait()
			close(results)
		}()
		var next []*node
		for r := range results {
			if r.err != nil || r.skipped {
				continue
			}
			if r.probe {
				continue
			}
			if r.violated && !e.NoPrune {
				// a state reached through a violating step is not extended: everything after it would only
				// repeat the consequences of the first violation (counterexamples stay minimal)
				e.PrunedViolating++
				continue
			}
			if seen[r.key] {
				e.DupHits++
				continue
			}
			seen[r.key] = true
			h2 := append(append([]Op{}, r.n.hist...), r.op)
			a2 := append(append([]bool{}, r.n.acc...), r.accepted)
			k2 := append(append([][20]byte{}, r.n.keys...), r.key)
			next = append(next, &node{init: r.n.init, hist: h2, acc: a2, keys: k2})
		}
		if f := fatal.Load(); f != nil {
			return f.(error)
		}
		e.States = int64(len(seen))
		if !e.Capped && !probesOnly {
			e.MaxDepthDone = depth + 1
		}
		if !e.Capped && probesOnly {
			e.ProbedLeaves = true
		}
		fmt.Fprintf(os.Stderr, "[E1] depth %d done: states=%d transitions=%d probes=%d next-frontier=%d violations=%d\n",
			depth+1, e.States, e.Transitions, e.ProbeTrans, len(next), e.Rep.Count())
		frontier = next
		if e.Capped {
			break
		}
	}
	return nil
}

func (e *E1) runTask(cc cache.Client, n *node, op Op, probe bool) (res taskResult) {
	res = taskResult{n: n, op: op, probe: probe}
	var w *World
	var m *Model
	var err error
	for attempt := 0; attempt < 5; attempt++ {
		w, m, err = e.replayChecked(cc, n)
		if err != errReplayDiverged {
			break
		}
	}
	if err == errReplayDiverged {
		// the implementation does not reproduce this history deterministically; judging the next step from a
		// different state would blame the wrong transition. Skip and count.
		atomic.AddInt64(&e.DivergedReplays, 1)
		res.skipped = true
		return
	}
	if err != nil {
		res.err = err
		return
	}
	defer w.Close()
	if probe && w.Opts.ResyncOnProbe {
		if err := w.ResyncRunning(); err != nil {
			res.err = fmt.Errorf("resync before %s: %w", op, err)
			return
		}
	}
	pre, err := w.Snapshot()
	if err != nil {
		res.err = fmt.Errorf("snapshot before %s after %v: %w", op, opsStrings(n.hist), err)
		return
	}
	out := w.Apply(op)
	post, err := w.Snapshot()
	if err != nil {
		// an unreadable store after a transaction is itself reported by the checker through Post == nil
		post = nil
	}
	accepted := !out.Rejected() && !op.DryRun
	mpost := m
	if accepted {
		mpost = m.Clone()
		applyEnd(mpost, op, e.Frags)
	}
	if probe {
		atomic.AddInt64(&e.ProbeTrans, 1)
	} else {
		atomic.AddInt64(&e.Transitions, 1)
	}
	switch {
	case out.Panic != "":
		atomic.AddInt64(&e.Panics, 1)
	case accepted:
		atomic.AddInt64(&e.Accepted, 1)
	default:
		atomic.AddInt64(&e.Rejected, 1)
	}
	step := &Step{Init: n.init, Hist: n.hist, Op: op, Probe: probe, W: w, ModelPre: m, ModelPost: mpost, Pre: pre, Post: post, Out: out, Accepted: accepted, E: e, CC: cc}
	for _, v := range e.Checker.Check(step) {
		res.violated = true
		v.Engine = "E1-history-bfs"
		if v.Case == nil {
			v.Case = step.Case()
		}
		e.Rep.Add(v)
	}
	e.noteOutcome(step)
	if post != nil {
		res.key = hashKey(n.init.Name + "\n" + post.Key() + "\n" + mpost.Key())
	} else {
		res.key = hashKey(fmt.Sprintf("unreadable %v %s", opsStrings(n.hist), op))
	}
	res.accepted = accepted
	return
}

func (e *E1) noteOutcome(s *Step) {
	cls := "rejected"
	switch {
	case s.Out.Panic != "":
		cls = "panic"
	case s.Accepted:
		c := s.W.Dev.Calls
		nu, nd := 0, 0
		if len(c) > 0 && s.Out.DevCalls > 0 {
			nu, nd = len(c[len(c)-1].Updates), len(c[len(c)-1].Deletes)
		}
		cls = fmt.Sprintf("applied:upd=%d,del=%d", nu, nd)
	case s.Op.DryRun:
		cls = "dryrun"
	}
	e.Outcomes.Store(cls, true)
	e.smu.Lock()
	if len(e.Samples) < 6 && (len(s.Hist) == e.Depth-1 || len(e.Samples) < 2) {
		e.Samples = append(e.Samples, map[string]any{"initial": s.Init.Name, "history": opsStrings(s.Hist), "op": s.Op.String(), "outcome": cls})
	}
	e.smu.Unlock()
}

// Coverage returns the evidence coverage block for a model_checking level claim.
func (e *E1) Coverage() map[string]any {
	n := 0
	var classes []string
	e.Outcomes.Range(func(k, v any) bool { n++; classes = append(classes, k.(string)); return true })
	return map[string]any{
		"states":                        e.States,
		"transitions":                   e.Transitions + e.ProbeTrans,
		"frontier_transitions":          e.Transitions,
		"probe_transitions":             e.ProbeTrans,
		"traces_validated_against_impl": e.Transitions + e.ProbeTrans,
		"max_depth_completed":           e.MaxDepthDone,
		"depth_bound":                   e.Depth,
		"accepted":                      e.Accepted,
		"rejected":                      e.Rejected,
		"panics":                        e.Panics,
		"duplicate_state_hits":          e.DupHits,
		"successors_not_extended_after_violation": e.PrunedViolating,
		"nondeterministic_replays_skipped":        e.DivergedReplays,
		"distinct_outcomes":             n,
		"outcome_classes":               classes,
		"alphabet_size":                 len(e.Alphabet),
		"initial_configs":               len(e.Initials),
		"samples":                       e.Samples,
		"exhaustive":                    !e.Capped && e.MaxDepthDone == e.Depth && (e.Probes == nil || e.ProbedLeaves),
		"probes_from_states_up_to_depth": map[bool]int{true: e.Depth, false: e.MaxDepthDone - 1}[e.ProbedLeaves],
		"explanation":                   "every transition is executed on the real Datastore over a real badger-backed cache instance and a recording device; a state is (intended store, running store, device, open transaction, reference model) canonicalised without timestamps",
	}
}
