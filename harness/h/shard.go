package h

import (
	"encoding/json"
	"fmt"
	"os"
	"os/exec"
)

// runShard runs `<self> <check> shard <s> <n>` as a subprocess and decodes the JSON it prints on stdout.
// Needed for engines whose runtime is a process-wide singleton (the cooperative scheduler).
func runShard(check, shard, of string, out any) error {
	self, err := os.Executable()
	if err != nil {
		return err
	}
	cmd := exec.Command(self, check, "shard", shard, of)
	cmd.Env = os.Environ()
	cmd.Stderr = os.Stderr
	b, err := cmd.Output()
	if err != nil {
		return fmt.Errorf("shard %s/%s of %s: %v", shard, of, check, err)
	}
	// the implementation prints to stdout in places; the result is the last line
	last := b
	for i := len(b) - 2; i >= 0; i-- {
		if b[i] == '\n' {
			last = b[i+1:]
			break
		}
	}
	return json.Unmarshal(last, out)
}

func writeShardResult(v any) int {
	b, err := json.Marshal(v)
	if err != nil {
		fmt.Fprintln(os.Stderr, err)
		return 2
	}
	os.Stdout.Write(append(b, '\n'))
	return 0
}
