package h

import (
	"strings"
	"encoding/json"
	"fmt"
	"sort"
)

// C09Checker: re-applying an unchanged intent is a no-op (checked on probe steps only).
type C09Checker struct{}

// C09Probes re-submits every non-empty subset of the live intents verbatim.
func C09Probes(m *Model) []Op {
	owners := make([]string, 0, len(m.Live))
	for o := range m.Live {
		owners = append(owners, o)
	}
	sort.Strings(owners)
	var ops []Op
	for mask := 1; mask < 1<<len(owners); mask++ {
		var op Op
		for i, o := range owners {
			if mask&(1<<i) != 0 {
				li := m.Live[o]
				op.Intents = append(op.Intents, IntentSpec{Owner: o, Prio: li.Prio, Frag: li.Frag})
			}
		}
		ops = append(ops, op)
	}
	return ops
}

func (C09Checker) Check(s *Step) []*Violation {
	if !s.Probe {
		return nil
	}
	var vs []*Violation
	role := c09Role(s) + c09RepairTag(s)
	add := func(clause, detail string) {
		vs = append(vs, &Violation{Clause: clause, Sig: clause + ":" + role, Detail: detail})
	}
	if s.Out.Panic != "" {
		add("panic", "re-applying unchanged intents panicked: "+s.Out.Panic)
		return vs
	}
	if s.Out.Rejected() {
		add("rejected", fmt.Sprintf("re-applying unchanged live intents was refused: err=%v conv=%v intentErrors=%v", s.Out.Err, s.Out.ConvErr, intentErrors(s.Out)))
		return vs
	}
	if n := len(s.Out.Rsp.GetUpdate()); n > 0 {
		add("response-updates", fmt.Sprintf("response reports %d updates, e.g. %s", n, CanonPath(s.Out.Rsp.GetUpdate()[0].GetPath())))
	}
	if n := len(s.Out.Rsp.GetDelete()); n > 0 {
		add("response-deletes", fmt.Sprintf("response reports %d deletes, e.g. %s", n, CanonPath(s.Out.Rsp.GetDelete()[0])))
	}
	// payload at the recording device in every encoding (the implementation may call Set with an empty change)
	calls := s.W.Dev.Calls
	for i := len(calls) - s.Out.DevCalls; i < len(calls); i++ {
		c := calls[i]
		if len(c.Updates) > 0 {
			add("proto-updates", fmt.Sprintf("device received updates %v", c.Updates))
		}
		if len(c.Deletes) > 0 {
			add("proto-deletes", fmt.Sprintf("device received deletes %v", c.Deletes))
		}
		if r := c.R; r != nil {
			if !emptyJSON(r.JSON) {
				add("json", "ToJson(true) is not empty: "+jsonStr(r.JSON))
			}
			if !emptyJSON(r.IETF) {
				add("json-ietf", "ToJsonIETF(true) is not empty: "+jsonStr(r.IETF))
			}
			for _, o := range AllXMLOpts() {
				if x := r.XML[o]; x != "" {
					add("xml", fmt.Sprintf("ToXML(true,%+v) is not the empty document: %s", o, x))
					break
				}
			}
		}
	}
	if s.Post == nil {
		add("stores", "stores unreadable after the no-op transaction")
	} else {
		if s.Pre.IntendedKey() != s.Post.IntendedKey() {
			add("intended-changed", "intended store changed:\nbefore:\n"+s.Pre.IntendedKey()+"after:\n"+s.Post.IntendedKey())
		}
		if mapKey(s.Pre.Running) != mapKey(s.Post.Running) {
			add("running-changed", "running store changed:\nbefore:\n"+mapKey(s.Pre.Running)+"after:\n"+mapKey(s.Post.Running))
		}
		if mapKey(s.Pre.Device) != mapKey(s.Post.Device) {
			add("device-changed", "device configuration changed")
		}
	}
	return vs
}

// c09RepairTag tells a redundant re-send from a repair: if everything the device received during the re-submission
// differs from what it held before (a written value that was absent or different, a delete that removes something),
// the device had not converged before the probe (an upstream defect of another property) and the re-submission
// repairs it. The tag names the schema paths concerned; it is empty if anything sent was redundant.
func c09RepairTag(s *Step) string {
	if s.Pre == nil || s.W == nil {
		return ""
	}
	calls := s.W.Dev.Calls
	paths := map[string]bool{}
	for i := len(calls) - s.Out.DevCalls; i >= 0 && i < len(calls); i++ {
		c := calls[i]
		for p, v := range c.Updates {
			if pv, ok := s.Pre.Device[p]; ok && pv == v {
				return ""
			}
			paths[SchemaClass(p)] = true
		}
		for _, d := range c.Deletes {
			hit := false
			for p := range s.Pre.Device {
				if p == d || strings.HasPrefix(p, d+"/") || strings.HasPrefix(p, d+"[") {
					hit = true
					paths[SchemaClass(p)] = true
				}
			}
			if !hit {
				return ""
			}
		}
	}
	if len(paths) == 0 {
		return ""
	}
	ks := make([]string, 0, len(paths))
	for k := range paths {
		ks = append(ks, k)
	}
	sort.Strings(ks)
	return ":repairs-divergence:" + strings.Join(ks, "+")
}

// c09Role classifies the re-submitted intents: ruling, shadowed or mixed (used in the signature).
func c09Role(s *Step) string {
	m := s.ModelPre
	rules, shadowed := false, false
	for _, is := range s.Op.Intents {
		li := m.Live[is.Owner]
		if li == nil {
			continue
		}
		for p := range li.Defined {
			if _, o, _ := m.Ruling(p); o == is.Owner {
				rules = true
			} else {
				shadowed = true
			}
		}
	}
	switch {
	case rules && shadowed:
		return "mixed"
	case rules:
		return "ruling"
	default:
		return "shadowed"
	}
}

func emptyJSON(v any) bool {
	switch t := v.(type) {
	case nil:
		return true
	case map[string]any:
		return len(t) == 0
	}
	return false
}

func jsonStr(v any) string {
	b, _ := json.Marshal(v)
	if len(b) > 300 {
		b = append(b[:300], "..."...)
	}
	return string(b)
}

func intentErrors(o *Outcome) map[string][]string {
	r := map[string][]string{}
	for n, ir := range o.Rsp.GetIntents() {
		if len(ir.GetErrors()) > 0 {
			r[n] = ir.GetErrors()
		}
	}
	return r
}
