package h

import (
	"google.golang.org/grpc/metadata"
)

// fakeServerStream implements the grpc.ServerStream plumbing methods; embedders add Send and Context.
type fakeServerStream struct{}

func (fakeServerStream) SetHeader(metadata.MD) error  { return nil }
func (fakeServerStream) SendHeader(metadata.MD) error { return nil }
func (fakeServerStream) SetTrailer(metadata.MD)       {}
func (fakeServerStream) SendMsg(m any) error          { return nil }
func (fakeServerStream) RecvMsg(m any) error          { return nil }
