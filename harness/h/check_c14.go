package h

import (
	"context"
	"fmt"
	"sort"
	"strings"
	"time"

	"github.com/sdcio/cache/proto/cachepb"
	sdcpb "github.com/sdcio/sdc-protos/sdcpb"
)

// C14: GetData returns exactly what is stored under the requested paths.

type getReq struct {
	Label    string
	Paths    []Path
	WantErr  bool // unknown path / unsupported combination
	RawPaths []*sdcpb.Path
}

func c14PathSets() []getReq {
	return []getReq{
		{Label: "root", Paths: []Path{{}}},
		{Label: "container-sys", Paths: []Path{P("sys")}},
		{Label: "leaf-mtu(prefix-of-mtu-ext)", Paths: []Path{P("sys", "mtu")}},
		{Label: "leaf-hostname", Paths: []Path{P("sys", "hostname")}},
		{Label: "list-if(prefix-of-ifx)", Paths: []Path{P("if")}},
		{Label: "entry-if-e1(prefix-of-e10)", Paths: []Path{P("if", e1)}},
		{Label: "entry-leaf", Paths: []Path{P("if", e1, "descr")}},
		{Label: "list-ifx", Paths: []Path{P("ifx")}},
		{Label: "partial-key-ok2", Paths: []Path{P("ok2", K{"k1", "x"})}},
		{Label: "full-key-ok2", Paths: []Path{P("ok2", K{"k1", "x"}, K{"k2", "y"})}},
		{Label: "leaf-below-2key-entry", Paths: []Path{P("ok2", K{"k1", "x"}, K{"k2", "y"}, "v")}},
		{Label: "key-leaf-of-2key-entry", Paths: []Path{P("ok2", K{"k1", "x"}, K{"k2", "y"}, "k2")}},
		{Label: "leaf-below-3key-entry", Paths: []Path{P("ok3", K{"k1", "x"}, K{"k2", "y"}, K{"k3", "z"}, "v")}},
		{Label: "two-paths", Paths: []Path{P("sys", "hostname"), P("if", e10)}},
		{Label: "absent-entry", Paths: []Path{P("if", K{"name", "zz"})}},
		{Label: "leaf-list", Paths: []Path{P("sys", "dns")}},
		{Label: "presence", Paths: []Path{P("sys", "banner")}},
		{Label: "below-and-above-presence", Paths: []Path{P("sys", "banner", "text"), P("sys")}},
		{Label: "presence-and-below", Paths: []Path{P("sys", "banner"), P("sys", "banner", "text")}},
		// several paths whose textual forms are prefixes of one another without being ancestors
		{Label: "prefix-related-keys", Paths: []Path{P("if", e1), P("if", e10, "descr")}},
		{Label: "prefix-related-keys-reversed", Paths: []Path{P("if", e10, "descr"), P("if", e1)}},
		{Label: "prefix-related-names", Paths: []Path{P("sys", "mtu"), P("sys", "mtu-ext")}},
		{Label: "prefix-related-lists", Paths: []Path{P("if"), P("ifx", K{"name", "e1"}, "descr")}},
		{Label: "unknown-path", Paths: []Path{P("nosuch")}, WantErr: true},
		{Label: "unknown-child", Paths: []Path{P("sys", "nosuch")}, WantErr: true},
		{Label: "known+unknown", Paths: []Path{P("sys"), P("nosuch")}, WantErr: true},
		{Label: "unknown+known", Paths: []Path{P("nosuch"), P("sys")}, WantErr: true},
		{Label: "known+unknown-child+known", Paths: []Path{P("if", e1), P("sys", "nosuch"), P("sys", "hostname")}, WantErr: true},
	}
}

type c14Sel struct {
	Label    string
	Type     sdcpb.Type
	DataType sdcpb.DataType
	Owner    string
	Prio     int32
	WantErr  bool
}

func c14Selections() []c14Sel {
	return []c14Sel{
		{Label: "MAIN/CONFIG", Type: sdcpb.Type_MAIN, DataType: sdcpb.DataType_CONFIG},
		{Label: "MAIN/STATE", Type: sdcpb.Type_MAIN, DataType: sdcpb.DataType_STATE},
		{Label: "MAIN/ALL", Type: sdcpb.Type_MAIN, DataType: sdcpb.DataType_ALL},
		{Label: "INTENDED", Type: sdcpb.Type_INTENDED, DataType: sdcpb.DataType_CONFIG},
		{Label: "INTENDED/STATE", Type: sdcpb.Type_INTENDED, DataType: sdcpb.DataType_STATE, WantErr: true},
	}
}

var c14Encodings = []sdcpb.Encoding{sdcpb.Encoding_STRING, sdcpb.Encoding_PROTO, sdcpb.Encoding_JSON, sdcpb.Encoding_JSON_IETF}

// doGet runs Datastore.Get with a draining consumer and a watchdog.
func doGet(w *World, req *sdcpb.GetDataRequest) (rsps []*sdcpb.GetDataResponse, err error, closed bool, hung bool, pan string) {
	nCh := make(chan *sdcpb.GetDataResponse)
	done := make(chan struct{})
	go func() {
		defer close(done)
		for r := range nCh {
			rsps = append(rsps, r)
		}
		closed = true
	}()
	errCh := make(chan error, 1)
	panCh := make(chan string, 1)
	ctx, cancel := context.WithCancel(context.Background())
	defer cancel()
	go func() {
		defer func() {
			if r := recover(); r != nil {
				panCh <- fmt.Sprintf("%v", r)
			}
		}()
		errCh <- w.DS.Get(ctx, req, nCh)
	}()
	select {
	case err = <-errCh:
	case pan = <-panCh:
		return nil, nil, false, false, pan
	case <-time.After(20 * time.Second):
		return nil, nil, false, true, ""
	}
	select {
	case <-done:
	case <-time.After(20 * time.Second):
		hung = true
	}
	return
}

func c14Filter(store map[string]StoredLeaf, paths []*sdcpb.Path) map[string]string {
	r := map[string]string{}
	for c, l := range store {
		for _, q := range paths {
			if PathHasPrefix(l.P, q) {
				r[c] = l.Val
				break
			}
		}
	}
	return r
}

// C14Checker runs the whole request menu against the state reached by every transition.
type C14Checker struct{}

func (C14Checker) Check(s *Step) []*Violation {
	if s.Out.Panic != "" || s.Post == nil {
		return nil
	}
	var vs []*Violation
	w := s.W
	cfgStore, err := w.ReadStorePaths(cachepb.Store_CONFIG)
	if err != nil {
		return []*Violation{{Clause: "harness", Sig: "store-unreadable", Detail: err.Error()}}
	}
	stStore, err := w.ReadStorePaths(cachepb.Store_STATE)
	if err != nil {
		return []*Violation{{Clause: "harness", Sig: "store-unreadable", Detail: err.Error()}}
	}
	// intended view without owner/priority: the highest-precedence entry per path
	inStore := map[string]StoredLeaf{}
	best := map[string]int32{}
	for _, e := range s.Post.Intended {
		if p, ok := best[e.Path]; !ok || e.Prio < p {
			best[e.Path] = e.Prio
			inStore[e.Path] = StoredLeaf{P: e.P, Val: e.Val}
		}
	}
	for _, sel := range c14Selections() {
		for _, ps := range c14PathSets() {
			var paths []*sdcpb.Path
			for _, p := range ps.Paths {
				paths = append(paths, p.Sdcpb())
			}
			var ref map[string]string
			switch sel.Label {
			case "MAIN/CONFIG":
				ref = c14Filter(cfgStore, paths)
			case "MAIN/STATE":
				ref = c14Filter(stStore, paths)
			case "MAIN/ALL":
				ref = c14Filter(cfgStore, paths)
				for k, v := range c14Filter(stStore, paths) {
					ref[k] = v
				}
			case "INTENDED":
				ref = c14Filter(inStore, paths)
			}
			var perEnc = map[sdcpb.Encoding]map[string]string{}
			for _, enc := range c14Encodings {
				req := &sdcpb.GetDataRequest{Name: w.Name, Path: paths, DataType: sel.DataType, Encoding: enc,
					Datastore: &sdcpb.DataStore{Type: sel.Type, Owner: sel.Owner, Priority: sel.Prio}}
				rsps, gerr, closed, hung, pan := doGet(w, req)
				sig := func(clause string) string {
					return fmt.Sprintf("%s:%s:%s:%s", clause, sel.Label, enc, ps.Label)
				}
				cas := map[string]any{"initial": s.Init.Name, "history": opsStrings(append(append([]Op{}, s.Hist...), s.Op)), "selection": sel.Label, "encoding": enc.String(), "paths": ps.Label}
				add := func(clause, detail string) {
					vs = append(vs, &Violation{Clause: clause, Sig: sig(clause), Detail: detail, Case: cas})
				}
				switch {
				case pan != "":
					add("panic", "Get panicked: "+pan)
					continue
				case hung:
					add("hang", "Get or its response channel did not finish within 20 s")
					continue
				case !closed:
					add("channel-not-closed", "the response channel was not closed")
				}
				wantErr := sel.WantErr || ps.WantErr
				if wantErr {
					if gerr == nil {
						add("no-error", "request for an unknown path / unsupported combination returned no error")
					}
					if len(rsps) > 0 {
						add("partial-data-with-error", fmt.Sprintf("%d data message(s) were delivered although the request must fail", len(rsps)))
					}
					continue
				}
				if gerr != nil {
					add("unexpected-error", "valid request failed: "+gerr.Error())
					continue
				}
				got := map[string]string{}
				var probs []string
				switch enc {
				case sdcpb.Encoding_STRING, sdcpb.Encoding_PROTO:
					for _, r := range rsps {
						for _, n := range r.GetNotification() {
							for _, u := range n.GetUpdate() {
								c := CanonPath(u.GetPath())
								// the same leaf delivered twice with the same value is tolerated (the property speaks of which
								// leaves are returned, not how often: requests with several paths whose textual forms are
								// prefixes of one another deliver a leaf once per path that reads it); two values are not
								if prev, dup := got[c]; dup && prev != CanonTV(u.GetValue()) {
									probs = append(probs, "leaf delivered twice with different values "+c)
								}
								got[c] = CanonTV(u.GetValue())
							}
						}
					}
				default:
					for _, r := range rsps {
						for _, n := range r.GetNotification() {
							for _, u := range n.GetUpdate() {
								var b []byte
								if enc == sdcpb.Encoding_JSON {
									b = u.GetValue().GetJsonVal()
								} else {
									b = u.GetValue().GetJsonVal()
									if b == nil {
										b = u.GetValue().GetJsonIetfVal()
									}
								}
								doc, err := ParseJSONBytes(b)
								if err != nil {
									probs = append(probs, "undecodable JSON: "+err.Error())
									continue
								}
								lv, pr := w.U.JSONLeaves(doc, enc == sdcpb.Encoding_JSON_IETF)
								probs = append(probs, pr...)
								for k, v := range lv {
									got[k] = v
								}
							}
						}
					}
				}
				if enc == sdcpb.Encoding_JSON || enc == sdcpb.Encoding_JSON_IETF {
					// JSON identifies a list entry by its key members: key leafs of returned entries are part of
					// the representation, not extra data
					for k := range got {
						if _, ok := ref[k]; !ok && isKeyLeafPath(k) {
							delete(got, k)
						}
					}
				}
				perEnc[enc] = got
				if d := diffMaps(ref, got); d != "" {
					extra, missing := false, false
					for k := range got {
						if _, ok := ref[k]; !ok {
							extra = true
						}
					}
					for k := range ref {
						if _, ok := got[k]; !ok {
							missing = true
						}
					}
					clause := "wrong-value"
					switch {
					case extra && !missing:
						clause = "leaf-outside-request"
					case missing && !extra:
						clause = "stored-leaf-missing"
					case extra && missing:
						clause = "extra-and-missing"
					}
					add(clause, fmt.Sprintf("reference (stored under the requested paths) vs returned: %s", d))
				}
				if len(probs) > 0 {
					sort.Strings(probs)
					add("malformed", strings.Join(probs[:min(len(probs), 4)], "; "))
				}
			}
		}
	}
	return vs
}

func c14Initials() []*Initial {
	st := []Leaf{leaf("up", "if", e1, "oper-state"), leaf("down", "if", e10, "oper-state")}
	r1 := CoreInitials()[1]
	return []*Initial{
		{Name: "R0+state", State: st},
		{Name: "R1+state", Leaves: r1.Leaves, State: st},
	}
}

func init() {
	registerE1("C14", &e1Config{checker: C14Checker{}, depth: [2]int{2, 3}, initials: c14Initials, noPrune: true,
		frags: func() (map[string]*Fragment, []string) {
			return mergeFrags(CoreFragments(), MultiKeyFragments()), []string{"fa", "fb", "fd", "fg", "mk4", "mk5"}
		},
		extraAssume: []string{"the request menu (17 path sets x 5 selections x 4 encodings) is executed against the state reached by every explored transition; STATE content is preloaded (if[e1]/oper-state, if[e10]/oper-state)",
			"the INTENDED selection is compared with the highest-precedence entry per path; the owner/priority-qualified INTENDED read is exercised by C02"}})
}

// isKeyLeafPath reports whether the canonical path is a key leaf of its list entry (/if[name=e1]/name).
func isKeyLeafPath(c string) bool {
	i := strings.LastIndex(c, "/")
	if i <= 0 || !strings.HasSuffix(c[:i], "]") {
		return false
	}
	leafName := c[i+1:]
	entry := c[:i]
	return strings.Contains(entry[strings.LastIndex(entry, "/"):], "["+leafName+"=")
}
