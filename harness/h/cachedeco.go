package h

import (
	"bytes"
	"context"
	"fmt"
	"io"
	"sync"
	"time"

	"github.com/sdcio/cache/proto/cachepb"
	"github.com/sdcio/data-server/pkg/cache"
	dschema "github.com/sdcio/data-server/pkg/schema"
	sdcpb "github.com/sdcio/sdc-protos/sdcpb"
	"google.golang.org/grpc"
)

func bytesReader(b []byte) io.Reader { return bytes.NewReader(b) }

// CallRec is one collaborator call seen by a decorator.
type CallRec struct {
	Kind string // cache.Modify, cache.Read, cache.ReadCh, cache.GetKeys, schema.GetSchema, target.Set
	Info string
}

// CallLog is shared by the cache and schema decorators of one world so that calls get a global index.
type CallLog struct {
	mu     sync.Mutex
	Calls  []CallRec
	FailAt int    // global index of the call that must fail (-1 = none)
	CutAt  int    // the process "crashes" at this call: it and every later call fail, nothing reaches a collaborator any more (-1 = none)
	Hit    bool   // the fault was injected
	Point  func(kind string) // optional scheduling seam, called before every call
}

func NewCallLog() *CallLog { return &CallLog{FailAt: -1, CutAt: -1} }

// next records a call and says whether it must fail.
func (l *CallLog) next(kind, info string) bool {
	if l == nil {
		return false
	}
	if l.Point != nil {
		l.Point(kind)
	}
	l.mu.Lock()
	defer l.mu.Unlock()
	idx := len(l.Calls)
	l.Calls = append(l.Calls, CallRec{Kind: kind, Info: info})
	if l.CutAt >= 0 && idx >= l.CutAt {
		l.Hit = true
		return true
	}
	if idx == l.FailAt {
		l.Hit = true
		return true
	}
	return false
}

func (l *CallLog) Count(kind string) int {
	l.mu.Lock()
	defer l.mu.Unlock()
	n := 0
	for _, c := range l.Calls {
		if c.Kind == kind {
			n++
		}
	}
	return n
}

func (l *CallLog) Len() int {
	l.mu.Lock()
	defer l.mu.Unlock()
	return len(l.Calls)
}

var ErrInjected = fmt.Errorf("verif: injected fault")



// CacheDeco decorates a cache.Client: counts calls, injects one fault.
type CacheDeco struct {
	cache.Client
	Log *CallLog
}

func (c *CacheDeco) Modify(ctx context.Context, name string, opts *cache.Opts, dels [][]string, upds []*cache.Update) error {
	st := cachepb.Store_CONFIG
	if opts != nil {
		st = opts.Store
	}
	if c.Log.next("cache.Modify", fmt.Sprintf("%v dels=%d upds=%d", st, len(dels), len(upds))) {
		return ErrInjected
	}
	return c.Client.Modify(ctx, name, opts, dels, upds)
}

func (c *CacheDeco) Read(ctx context.Context, name string, opts *cache.Opts, paths [][]string, period time.Duration) []*cache.Update {
	if c.Log.next("cache.Read", fmt.Sprintf("%d paths", len(paths))) {
		return nil // the interface has no error return: a failed read yields nothing
	}
	return c.Client.Read(ctx, name, opts, paths, period)
}

func (c *CacheDeco) ReadCh(ctx context.Context, name string, opts *cache.Opts, paths [][]string, period time.Duration) chan *cache.Update {
	if c.Log.next("cache.ReadCh", fmt.Sprintf("%d paths", len(paths))) {
		ch := make(chan *cache.Update)
		close(ch)
		return ch
	}
	return c.Client.ReadCh(ctx, name, opts, paths, period)
}

func (c *CacheDeco) GetKeys(ctx context.Context, name string, store cachepb.Store) (chan *cache.Update, error) {
	if c.Log.next("cache.GetKeys", store.String()) {
		return nil, ErrInjected
	}
	return c.Client.GetKeys(ctx, name, store)
}

func (c *CacheDeco) CreatePruneID(ctx context.Context, name string, force bool) (string, error) {
	if c.Log.next("cache.CreatePruneID", "") {
		return "", ErrInjected
	}
	return c.Client.CreatePruneID(ctx, name, force)
}

func (c *CacheDeco) ApplyPrune(ctx context.Context, name, id string) error {
	if c.Log.next("cache.ApplyPrune", "") {
		return ErrInjected
	}
	return c.Client.ApplyPrune(ctx, name, id)
}

// SchemaDeco decorates a schema.Client: counts GetSchema calls, injects one fault.
type SchemaDeco struct {
	dschema.Client
	Log *CallLog
}

func (s *SchemaDeco) GetSchema(ctx context.Context, in *sdcpb.GetSchemaRequest, opts ...grpc.CallOption) (*sdcpb.GetSchemaResponse, error) {
	if s.Log.next("schema.GetSchema", CanonPath(in.GetPath())) {
		return nil, ErrInjected
	}
	return s.Client.GetSchema(ctx, in, opts...)
}
