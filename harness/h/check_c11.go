package h

import (
	"context"
	"encoding/json"
	"fmt"
	"math"
	"os"
	"strings"
	"sync"

	dtypes "github.com/sdcio/data-server/pkg/datastore/types"
	"github.com/sdcio/data-server/pkg/tree"
	"github.com/sdcio/data-server/pkg/utils"
	sdcpb "github.com/sdcio/sdc-protos/sdcpb"
)

// C11: path representations are lossless and collision-free (bounded-exhaustive over instance paths).

type c11List struct {
	Name string
	Keys []string // key-statement order
	Leaf string
	Vals []string
}

func c11Lists() []c11List {
	one := []string{"a", "e1", "e10", "ab", "a/b", "a/descr", "a_b", "a:b", "a=b", "a=b=c", "a b", "a[b]", "a]", "b", "a.b", "a+b"}
	two := []string{"a", "b", "c", "a_b", "b_c", "a/b", "b/c", "a b"}
	three := []string{"a", "b", "a_b", "b_a"}
	if Tier() == "thorough" {
		two = append(two, "a:b", "a=b", "a[b]", "e1", "e10")
		three = append(three, "a/b", "a b", "c")
	}
	return []c11List{
		{"if", []string{"name"}, "descr", one},
		{"ifx", []string{"name"}, "descr", []string{"a", "e1", "a_b"}},
		{"ok2", []string{"k1", "k2"}, "v", two},
		{"dk", []string{"zk", "ak"}, "m", two}, // m is mandatory in dk
		{"ok3", []string{"k1", "k2", "k3"}, "v", three},
		{"tk", []string{"c", "a", "b"}, "v", three},
	}
}

type c11Path struct {
	List  c11List
	Vals  []string
	Entry Path // path of the list entry
	Leaf  Path // path of the leaf below it
}

func c11Paths() []c11Path {
	var res []c11Path
	for _, l := range c11Lists() {
		idx := make([]int, len(l.Keys))
		for {
			vals := make([]string, len(l.Keys))
			e := Path{PE{Name: l.Name}}
			for i, k := range l.Keys {
				vals[i] = l.Vals[idx[i]]
				e[0].Keys = append(e[0].Keys, [2]string{k, vals[i]})
			}
			leafP := append(append(Path{}, e...), PE{Name: l.Leaf})
			res = append(res, c11Path{List: l, Vals: vals, Entry: e, Leaf: leafP})
			// odometer
			i := len(idx) - 1
			for i >= 0 {
				idx[i]++
				if idx[i] < len(l.Vals) {
					break
				}
				idx[i] = 0
				i--
			}
			if i < 0 {
				break
			}
		}
	}
	return res
}

// valueClass names the separator characters a key value contains (for signatures).
func valueClass(vals []string) string {
	cls := map[string]bool{}
	for _, v := range vals {
		for _, c := range []string{"/", "_", ":", "=", " ", "[", "]", ","} {
			if strings.Contains(v, c) {
				cls[c] = true
			}
		}
	}
	if len(cls) == 0 {
		return "plain"
	}
	var r []string
	for _, c := range []string{"/", "_", ":", "=", " ", "[", "]", ","} {
		if cls[c] {
			if c == " " {
				c = "space"
			}
			r = append(r, c)
		}
	}
	return strings.Join(r, "")
}

func pathsEqualCanon(a, b *sdcpb.Path) bool { return CanonPath(a) == CanonPath(b) }

func runC11() int {
	u, err := LoadUniverse()
	if err != nil {
		return fail(err)
	}
	rep := NewReporter("C11", "exploration")
	rep.Assumptions = []string{
		"instance paths are enumerated over the lists if, ifx (1 key), ok2, dk (2 keys, alphabetical / non-alphabetical declaration), ok3, tk (3 keys) of the universe with key values from an explicit alphabet containing '/', '_', ':', '=', ' ', '[', ']' (',' is left out: the cache library's key separator)",
		"collision clauses are evaluated for every ordered pair (p,q) of enumerated paths through IntendedPathExists, GetBranchesHighesPrecedence and GetData on a datastore that holds a single intent at p",
	}
	paths := c11Paths()
	var mu sync.Mutex
	evals, pairEvals := 0, 0
	distinct := map[string]bool{}
	var samples []any
	ch := make(chan int, 64)
	var wg sync.WaitGroup
	for i := 0; i < 16; i++ {
		wg.Add(1)
		go func() {
			defer wg.Done()
			wc := NewWorkerCache()
			defer wc.Close()
			for pi := range ch {
				p := paths[pi]
				cc, err := wc.Get()
				if err != nil {
					fmt.Fprintln(os.Stderr, err)
					continue
				}
				frag := &Fragment{Name: "p", Leaves: []Leaf{{P: p.Leaf, V: "val"}}}
				w, err := NewWorld(u, cc, nil, WorldOpts{Fragments: map[string]*Fragment{"p": frag}})
				if err != nil {
					fmt.Fprintln(os.Stderr, err)
					continue
				}
				ctx := context.Background()
				vc := valueClass(p.Vals)
				cas := map[string]any{"path": p.Leaf.String(), "key_values": p.Vals}
				add := func(clause, detail string, extra string) {
					rep.Add(&Violation{Clause: clause, Sig: fmt.Sprintf("%s:%s:%s%s", clause, p.List.Name, vc, extra), Detail: detail, Case: cas, Engine: "E3-inputs"})
				}
				func() {
					defer func() {
						if r := recover(); r != nil {
							add("panic", fmt.Sprintf("panic: %v", r), "")
						}
					}()
					sp := p.Leaf.Sdcpb()
					// (a) request path -> element sequence -> request path
					ss := utils.ToStrings(sp, false, false)
					back, err := w.DS.VerifSchemaClient().ToPath(ctx, ss)
					if err != nil {
						add("topath-error", fmt.Sprintf("ToPath(ToStrings(%s)) failed: %v", p.Leaf, err), "")
					} else if !pathsEqualCanon(back, sp) {
						add("tostrings-topath", fmt.Sprintf("ToPath(ToStrings(p)) = %s, p = %s", CanonPath(back), p.Leaf), "")
					}
					// (b) xpath text round trip
					xp := utils.ToXPath(sp, false)
					pp, err := utils.ParsePath(xp)
					if err != nil {
						add("xpath-roundtrip", fmt.Sprintf("ParsePath(ToXPath(p)=%q) failed: %v", xp, err), "")
					} else if !pathsEqualCanon(pp, sp) {
						add("xpath-roundtrip", fmt.Sprintf("ParsePath(ToXPath(p)=%q) = %s, p = %s", xp, CanonPath(pp), p.Leaf), "")
					}
					// (c) through the merge tree and back: response, device, stores
					out := w.Apply(single(IntentSpec{Owner: "A", Prio: 10, Frag: "p"}))
					if out.Rejected() {
						add("set-rejected", fmt.Sprintf("a schema-valid path was refused: err=%v conv=%v intentErrors=%v panic=%q", out.Err, out.ConvErr, intentErrors(out), out.Panic), "")
						return
					}
					want := frag.Defined()
					rspGot := map[string]string{}
					for _, up := range out.Rsp.GetUpdate() {
						rspGot[CanonPath(up.GetPath())] = CanonTV(up.GetValue())
					}
					if d := diffMaps(want, rspGot); d != "" {
						add("response-path", "paths in the TransactionSetResponse differ from the request: "+d, "")
					}
					if d := diffMaps(want, w.Dev.Snapshot()); d != "" {
						add("device-path", "paths at the device differ from the request: "+d, "")
					}
					st, err := w.Snapshot()
					if err != nil {
						add("store-unreadable", err.Error(), "")
						return
					}
					inGot := map[string]string{}
					for _, e := range st.Intended {
						inGot[e.Path] = e.Val
					}
					if d := diffMaps(want, inGot); d != "" {
						add("intended-path", "intended store (read back by the inverse of ToStrings) differs from the request: "+d, "")
					}
					// GetData for exactly p returns p
					rsps, gerr, _, hung, pan := doGet(w, &sdcpb.GetDataRequest{Name: w.Name, Path: []*sdcpb.Path{p.Entry.Sdcpb()}, DataType: sdcpb.DataType_CONFIG,
						Encoding: sdcpb.Encoding_STRING, Datastore: &sdcpb.DataStore{Type: sdcpb.Type_MAIN}})
					switch {
					case pan != "":
						add("panic", "GetData panicked: "+pan, "")
					case hung:
						add("hang", "GetData hung", "")
					case gerr != nil:
						add("getdata-own-path", fmt.Sprintf("GetData(%s) failed: %v", p.Entry, gerr), "")
					default:
						got := map[string]string{}
						for _, r := range rsps {
							for _, n := range r.GetNotification() {
								for _, up := range n.GetUpdate() {
									got[CanonPath(up.GetPath())] = CanonTV(up.GetValue())
								}
							}
						}
						if d := diffMaps(want, got); d != "" {
							add("getdata-own-path", fmt.Sprintf("GetData(%s) does not return exactly the entry: %s", p.Entry, d), "")
						}
					}
					// collisions with every other enumerated path q
					tcc := tree.NewTreeCacheClient(w.Name, w.Raw)
					_ = tcc.RefreshCaches(ctx)
					for qi, q := range paths {
						if qi == pi {
							continue
						}
						qLeaf := utils.ToStrings(q.Leaf.Sdcpb(), false, false)
						qEntry := utils.ToStrings(q.Entry.Sdcpb(), false, false)
						qc := fmt.Sprintf(":vs-%s:%s", q.List.Name, valueClass(q.Vals))
						mu.Lock()
						pairEvals++
						mu.Unlock()
						if ex, _ := tcc.IntendedPathExists(ctx, qLeaf); ex {
							add("collision-intended-exists", fmt.Sprintf("only %s is stored, yet IntendedPathExists(%s) is true", p.Leaf, q.Leaf), qc)
						}
						if pr := tcc.GetBranchesHighesPrecedence(ctx, qEntry); pr != math.MaxInt32 {
							add("collision-branch-precedence", fmt.Sprintf("only %s is stored, yet the branch %s reports priority %d", p.Leaf, q.Entry, pr), qc)
						}
						rsps, gerr, _, hung, pan := doGet(w, &sdcpb.GetDataRequest{Name: w.Name, Path: []*sdcpb.Path{q.Entry.Sdcpb()}, DataType: sdcpb.DataType_CONFIG,
							Encoding: sdcpb.Encoding_STRING, Datastore: &sdcpb.DataStore{Type: sdcpb.Type_MAIN}})
						if pan != "" || hung {
							add("panic", fmt.Sprintf("GetData(%s) panicked or hung: %s", q.Entry, pan), qc)
							continue
						}
						if gerr == nil {
							n := 0
							for _, r := range rsps {
								for _, no := range r.GetNotification() {
									n += len(no.GetUpdate())
								}
							}
							if n > 0 {
								add("collision-getdata", fmt.Sprintf("only %s is stored, yet GetData(%s) returns %d leaf(s)", p.Leaf, q.Entry, n), qc)
							}
						}
					}
				}()
				w.Close()
				mu.Lock()
				evals++
				distinct[p.List.Name+"|"+vc] = true
				if len(samples) < 8 && vc != "plain" && evals%11 == 0 {
					samples = append(samples, cas)
				}
				mu.Unlock()
			}
		}()
	}
	for i := range paths {
		ch <- i
	}
	close(ch)
	wg.Wait()
	// pair writes: p and q stored by two intents in the same datastore, one after the other (lookups are memoised
	// per datastore, so the second path meets whatever the first one left behind); plus the JSON input form in
	// which the keys of a multi-key entry are split between the request path and the JSON body
	type pairJob struct{ a, b int }
	var pjobs []pairJob
	for i, p := range paths {
		for j, q := range paths {
			if i != j && p.List.Name == q.List.Name && (len(p.List.Keys) == 1 || Tier() == "thorough" || (i+j)%7 == 0) {
				pjobs = append(pjobs, pairJob{i, j})
			}
		}
	}
	pairWrites := 0
	pch := make(chan pairJob, 64)
	var pwg sync.WaitGroup
	for i := 0; i < 16; i++ {
		pwg.Add(1)
		go func() {
			defer pwg.Done()
			wc := NewWorkerCache()
			defer wc.Close()
			for pj := range pch {
				p, q := paths[pj.a], paths[pj.b]
				if p.List.Name == "dk" || p.List.Name == "tk" {
					continue // covered (and known to fail) by the single path clauses
				}
				cc, err := wc.Get()
				if err != nil {
					continue
				}
				fp := &Fragment{Name: "p", Leaves: []Leaf{{P: p.Leaf, V: "vp"}}}
				fq := &Fragment{Name: "q", Leaves: []Leaf{{P: q.Leaf, V: "vq"}}}
				w, err := NewWorld(u, cc, nil, WorldOpts{Fragments: map[string]*Fragment{"p": fp, "q": fq}})
				if err != nil {
					continue
				}
				cas := map[string]any{"first": p.Leaf.String(), "second": q.Leaf.String()}
				sig := fmt.Sprintf("pair-write:%s:%s:then-%s", p.List.Name, valueClass(p.Vals), valueClass(q.Vals))
				o1 := w.Apply(single(IntentSpec{Owner: "A", Prio: 10, Frag: "p"}))
				var o2 *Outcome
				if (pj.a+pj.b)%2 == 0 {
					o2 = w.Apply(single(IntentSpec{Owner: "B", Prio: 20, Frag: "q"}))
				} else {
					// the second path as a JSON value at the path of the list entry
					o2 = &Outcome{}
					body, _ := json.Marshal(map[string]any{q.List.Leaf: "vq"})
					ctx := context.Background()
					ti, err := w.DS.SdcpbTransactionIntentToInternalTI(ctx, &sdcpb.TransactionIntent{Intent: "B", Priority: 20, Update: []*sdcpb.Update{{Path: q.Entry.Sdcpb(), Value: &sdcpb.TypedValue{Value: &sdcpb.TypedValue_JsonVal{JsonVal: body}}}}})
					if err != nil {
						o2.ConvErr = err
					} else {
						o2.Rsp, o2.Err = w.DS.TransactionSet(ctx, "tq", []*dtypes.TransactionIntent{ti}, nil, 3600e9, false)
						for _, ir := range o2.Rsp.GetIntents() {
							if len(ir.GetErrors()) > 0 {
								o2.HasIntentErrors = true
							}
						}
						_ = w.DS.TransactionConfirm(ctx, "tq")
					}
				}
				if o1.Rejected() || o2.Rejected() {
					rep.Add(&Violation{Clause: "pair-write-rejected", Sig: "rejected-" + sig, Engine: "E3-inputs", Case: cas,
						Detail: fmt.Sprintf("storing %s and then %s: first rejected=%v second rejected=%v (err=%v conv=%v intentErrors=%v panic=%q)", p.Leaf, q.Leaf, o1.Rejected(), o2.Rejected(), o2.Err, o2.ConvErr, intentErrors(o2), o2.Panic)})
				} else {
					want := fp.Defined()
					for k, v := range fq.Defined() {
						want[k] = v
					}
					if d := diffMaps(want, w.Dev.Snapshot()); d != "" {
						rep.Add(&Violation{Clause: "pair-write-device", Sig: "device-" + sig, Engine: "E3-inputs", Case: cas,
							Detail: fmt.Sprintf("after storing %s and then %s the device differs from the two requests: %s", p.Leaf, q.Leaf, d)})
					}
				}
				w.Close()
				mu.Lock()
				pairWrites++
				mu.Unlock()
			}
		}()
	}
	for _, pj := range pjobs {
		pch <- pj
	}
	close(pch)
	pwg.Wait()
	// one intent stores p and q, then it is deleted: both must leave the intended store and the device (the old
	// content of an intent is read back through path sets and indexes keyed by joined path elements)
	sameIntent := 0
	{
		sch := make(chan pairJob, 64)
		var swg sync.WaitGroup
		for i := 0; i < 16; i++ {
			swg.Add(1)
			go func() {
				defer swg.Done()
				wc := NewWorkerCache()
				defer wc.Close()
				for pj := range sch {
					p, q := paths[pj.a], paths[pj.b]
					cc, err := wc.Get()
					if err != nil {
						continue
					}
					fpq := &Fragment{Name: "pq", Leaves: []Leaf{{P: p.Leaf, V: "vp"}, {P: q.Leaf, V: "vq"}}}
					if p.List.Name == "dk" {
						// m is mandatory in dk
						fpq.Leaves = []Leaf{{P: p.Leaf, V: "vp"}, {P: q.Leaf, V: "vq"}}
					}
					w, err := NewWorld(u, cc, nil, WorldOpts{Fragments: map[string]*Fragment{"pq": fpq}})
					if err != nil {
						continue
					}
					cas := map[string]any{"first": p.Leaf.String(), "second": q.Leaf.String()}
					sig := fmt.Sprintf("same-intent:%s:%s:with-%s", p.List.Name, valueClass(p.Vals), valueClass(q.Vals))
					o1 := w.Apply(single(IntentSpec{Owner: "A", Prio: 10, Frag: "pq"}))
					o2 := w.Apply(single(IntentSpec{Owner: "A", Prio: 10, Delete: true}))
					if o1.Rejected() || o2.Rejected() {
						rep.Add(&Violation{Clause: "same-intent-rejected", Sig: "rejected-" + sig, Engine: "E3-inputs", Case: cas,
							Detail: fmt.Sprintf("one intent with %s and %s, then its deletion: set rejected=%v delete rejected=%v (err=%v intentErrors=%v)", p.Leaf, q.Leaf, o1.Rejected(), o2.Rejected(), o2.Err, intentErrors(o2))})
					} else {
						if d := w.Dev.Snapshot(); len(d) != 0 {
							rep.Add(&Violation{Clause: "same-intent-device", Sig: "device-" + sig, Engine: "E3-inputs", Case: cas,
								Detail: fmt.Sprintf("an intent with %s and %s was deleted, the device still holds %v", p.Leaf, q.Leaf, d)})
						}
						if in, err := w.ReadIntended(); err != nil || len(in) != 0 {
							rep.Add(&Violation{Clause: "same-intent-intended", Sig: "intended-" + sig, Engine: "E3-inputs", Case: cas,
								Detail: fmt.Sprintf("an intent with %s and %s was deleted, the intended store still holds %v (err=%v)", p.Leaf, q.Leaf, in, err)})
						}
					}
					w.Close()
					mu.Lock()
					sameIntent++
					mu.Unlock()
				}
			}()
		}
		for i, p := range paths {
			for j := i + 1; j < len(paths); j++ {
				if p.List.Name == paths[j].List.Name {
					sch <- pairJob{i, j}
				}
			}
		}
		close(sch)
		swg.Wait()
	}
	// keys split between request path and JSON body
	splitEvals := 0
	func() {
		wc := NewWorkerCache()
		defer wc.Close()
		for _, p := range paths {
			if len(p.List.Keys) < 2 || p.List.Name == "dk" || p.List.Name == "tk" {
				continue
			}
			cc, err := wc.Get()
			if err != nil {
				return
			}
			w, err := NewWorld(u, cc, nil, WorldOpts{})
			if err != nil {
				return
			}
			// first key in the path, the others and the leaf in the body
			pe := &sdcpb.PathElem{Name: p.List.Name, Key: map[string]string{p.List.Keys[0]: p.Vals[0]}}
			body := map[string]any{p.List.Leaf: "val"}
			for i := 1; i < len(p.List.Keys); i++ {
				body[p.List.Keys[i]] = p.Vals[i]
			}
			b, _ := json.Marshal(body)
			ctx := context.Background()
			splitEvals++
			cas := map[string]any{"path": p.Leaf.String(), "request_path": CanonPath(&sdcpb.Path{Elem: []*sdcpb.PathElem{pe}}), "body": string(b)}
			sig := fmt.Sprintf("split-keys:%s:%s", p.List.Name, valueClass(p.Vals))
			ti, err := w.DS.SdcpbTransactionIntentToInternalTI(ctx, &sdcpb.TransactionIntent{Intent: "A", Priority: 10, Update: []*sdcpb.Update{{Path: &sdcpb.Path{Elem: []*sdcpb.PathElem{pe}}, Value: &sdcpb.TypedValue{Value: &sdcpb.TypedValue_JsonVal{JsonVal: b}}}}})
			if err == nil {
				_, err = w.DS.TransactionSet(ctx, "t", []*dtypes.TransactionIntent{ti}, nil, 3600e9, false)
			}
			if err != nil {
				rep.Add(&Violation{Clause: "split-keys-rejected", Sig: "rejected-" + sig, Engine: "E3-inputs", Case: cas, Detail: "request with the keys split between path and JSON body refused: " + err.Error()})
			} else if got, ok := w.Dev.Snapshot()[p.Leaf.String()]; !ok || got != "val" {
				rep.Add(&Violation{Clause: "split-keys-device", Sig: "device-" + sig, Engine: "E3-inputs", Case: cas,
					Detail: fmt.Sprintf("the device did not receive %s=val; device: %v", p.Leaf, w.Dev.Snapshot())})
			}
			w.Close()
		}
	}()
	return rep.Finish(map[string]any{
		"evaluations":         evals + pairWrites + splitEvals + sameIntent,
		"same_intent_pair_evaluations": sameIntent,
		"single_path_evaluations": evals,
		"pair_write_evaluations":  pairWrites,
		"split_key_evaluations":   splitEvals,
		"pair_evaluations":    pairEvals,
		"distinct_nontrivial": len(distinct),
		"rule":                "every instance path of the enumerated lists x key-value alphabets goes through the three round trips (ToStrings/ToPath, ToXPath/ParsePath, TransactionSet -> response/device/stores/GetData) and is paired with every other enumerated path for the collision clauses; a case class is distinct by (list, set of separator characters in the key values)",
		"samples":             samples,
		"alphabet":            c11Lists(),
		"exhaustive":          true,
	})
}

func init() {
	Checks["C11"] = func([]string) int { return runC11() }
}
