package h

import (
	"bufio"
	"context"
	"encoding/json"
	"fmt"
	"math"
	"os"
	"os/exec"
	"regexp"
	"runtime/debug"
	"strconv"
	"strings"
	"sync"
	"syscall"
	"time"

	"github.com/beevik/etree"
	"github.com/sdcio/cache/proto/cachepb"
	"github.com/sdcio/data-server/pkg/cache"
	dconfig "github.com/sdcio/data-server/pkg/config"
	"github.com/sdcio/data-server/pkg/datastore/target"
	"github.com/sdcio/data-server/pkg/datastore/target/netconf"
	"github.com/sdcio/data-server/pkg/server"
	"github.com/sdcio/data-server/pkg/tree"
	jsonImporter "github.com/sdcio/data-server/pkg/tree/importer/json"
	xmlImporter "github.com/sdcio/data-server/pkg/tree/importer/xml"
	"github.com/sdcio/data-server/pkg/utils"
	sdcpb "github.com/sdcio/sdc-protos/sdcpb"
	"google.golang.org/grpc/peer"
	"google.golang.org/protobuf/proto"
	"google.golang.org/protobuf/types/known/anypb"
	"google.golang.org/protobuf/types/known/emptypb"
)

// C20: no request or device message crashes the server. Crash oracle, bounded-exhaustive inputs,
// executed in worker subprocesses so that panics in goroutines of the implementation, stack exhaustion
// and hangs are observed per case.

type c20Case struct {
	Kind string // class of the case (signature)
	Desc string
	Run  func(env *c20Env) string // returns a short outcome ("ok" / "error: ..."), panics / hangs are the oracle
}

type c20Env struct {
	U  *Universe
	WC *WorkerCache
}

func (e *c20Env) world(o WorldOpts) *World {
	cc, err := e.WC.Get()
	if err != nil {
		panic("harness: " + err.Error())
	}
	w, err := NewWorld(e.U, cc, nil, o)
	if err != nil {
		panic("harness: " + err.Error())
	}
	return w
}

func errStr(err error) string {
	if err == nil {
		return "ok"
	}
	return "error"
}

// ---------------------------------------------------------------------------
// (a) path strings

var c20PathAlphabet = []string{"a", "/", "[", "]", "=", ":", "\\", " ", "*"}

func c20Strings(prefix string, n int, f func(string)) {
	if n == 0 {
		f(prefix)
		return
	}
	f(prefix)
	for _, c := range c20PathAlphabet {
		c20Strings(prefix+c, n-1, f)
	}
}

func c20PathCases(maxLen int) []c20Case {
	var cs []c20Case
	// one case per 2-character prefix; the case enumerates every extension up to maxLen
	for _, a := range c20PathAlphabet {
		for _, b := range c20PathAlphabet {
			pre := a + b
			cs = append(cs, c20Case{Kind: "path-string", Desc: fmt.Sprintf("all strings over %q starting with %q up to length %d", strings.Join(c20PathAlphabet, ""), pre, maxLen),
				Run: func(env *c20Env) string {
					n := 0
					c20Strings(pre, maxLen-2, func(s string) {
						n++
						_, _ = utils.ParsePath(s)
						_, _ = utils.StripPathElemPrefix(s)
						_, _ = utils.CompletePathFromString(s)
						if p, err := utils.ParsePath(s); err == nil {
							_ = utils.ToXPath(p, false)
							_ = utils.ToStrings(p, false, false)
						}
					})
					return fmt.Sprintf("ok n=%d", n)
				}})
		}
	}
	// the strings shorter than 2
	cs = append(cs, c20Case{Kind: "path-string", Desc: "strings of length 0 and 1", Run: func(env *c20Env) string {
		for _, s := range append([]string{""}, c20PathAlphabet...) {
			_, _ = utils.ParsePath(s)
			_, _ = utils.StripPathElemPrefix(s)
			_, _ = utils.CompletePathFromString(s)
		}
		return "ok"
	}})
	return cs
}

// ---------------------------------------------------------------------------
// (b) requests

type c20Path struct {
	Name string
	P    *sdcpb.Path
}

func c20Paths() []c20Path {
	raw := func(elems ...*sdcpb.PathElem) *sdcpb.Path { return &sdcpb.Path{Elem: elems} }
	pe := func(n string, kv ...string) *sdcpb.PathElem {
		e := &sdcpb.PathElem{Name: n}
		for i := 0; i+1 < len(kv); i += 2 {
			if e.Key == nil {
				e.Key = map[string]string{}
			}
			e.Key[kv[i]] = kv[i+1]
		}
		return e
	}
	ps := []c20Path{
		{"root", raw()},
		{"nil-path", nil},
		{"container", P("sys").Sdcpb()},
		{"presence", P("sys", "banner").Sdcpb()},
		{"list-no-key", P("if").Sdcpb()},
		{"list-entry", P("if", e1).Sdcpb()},
		{"key-leaf", P("if", e1, "name").Sdcpb()},
		{"state-leaf", P("if", e1, "oper-state").Sdcpb()},
		{"nested-list-leaf", P("if", e1, "unit", K{"id", "1"}, "vlan").Sdcpb()},
		{"nested-list-bad-key-value", P("if", e1, "unit", K{"id", "x"}, "vlan").Sdcpb()},
		{"container-in-list", P("if", e1, "lag").Sdcpb()},
		{"leaflist-in-case", P("if", e1, "lag", "members").Sdcpb()},
		{"choice-member", P("mode", "a").Sdcpb()},
		{"leafref", P("refs", "uplink").Sdcpb()},
		{"leaflist-min-max", P("refs", "ll").Sdcpb()},
		{"two-keys", P("dk", K{"zk", "1"}, K{"ak", "2"}, "v").Sdcpb()},
		{"missing-key", P("dk", K{"zk", "1"}, "v").Sdcpb()},
		{"unknown-key", raw(pe("if", "nam", "e1"), pe("descr"))},
		{"extra-key", raw(pe("if", "name", "e1", "x", "y"), pe("descr"))},
		{"key-on-container", raw(pe("sys", "k", "v"), pe("hostname"))},
		{"key-on-leaf", raw(pe("sys"), pe("hostname", "k", "v"))},
		{"unknown-top", P("nosuch").Sdcpb()},
		{"unknown-child", P("sys", "nosuch").Sdcpb()},
		{"below-leaf", P("sys", "hostname", "x").Sdcpb()},
		{"empty-elem-name", raw(pe(""))},
		{"empty-elem-name-2", raw(pe("sys"), pe(""))},
		{"nil-elem", &sdcpb.Path{Elem: []*sdcpb.PathElem{nil}}},
		{"dotdot", raw(pe("sys"), pe(".."), pe("sys"), pe("hostname"))},
		{"empty-key-value", raw(pe("if", "name", ""), pe("descr"))},
		{"origin", &sdcpb.Path{Origin: "o", Elem: []*sdcpb.PathElem{pe("sys"), pe("hostname")}}},
	}
	for _, t := range c12Types() {
		ps = append(ps, c20Path{"types-" + t.Leaf, P("types", t.Leaf).Sdcpb()})
	}
	return ps
}

type c20Value struct {
	Name string
	V    *sdcpb.TypedValue
}

var c20JSONDocs = []string{`null`, `1`, `"s"`, `true`, `{}`, `[]`, `{"a":1}`, `[1]`, `{"hostname":{}}`, `{"hostname":[]}`, `{"hostname":"h","mtu":"x"}`,
	`{"if":[{"name":"e1"}]}`, `{"if":{}}`, `{"if":[1]}`, `{"if":[{}]}`, `{"if":[{"name":{}}]}`, `{"dns":"x"}`, `{"dns":[{}]}`, `{"banner":1}`, `{"banner":{"text":[]}}`,
	`{"name":"e1","unit":[{"id":"x","vlan":{}}]}`, `{"d1":3}`, `{"d1":"x"}`, `{"u64":-1}`, `{"u64":1.5}`, `{"em":1}`, `{"un":{}}`, `{"idr":5}`, `{"ll-i8":[null]}`, `{"ll-i8":null}`, `{"dns":null}`, `{"hostname":null}`, `{"if":null}`, `{"banner":null}`, `{"if":[null]}`, `{"verif-vm:hostname":"h"}`, `{":":1}`, `{`, ``}

func c20Values() []c20Value {
	tv := func(v any) *sdcpb.TypedValue {
		switch x := v.(type) {
		case nil:
			return &sdcpb.TypedValue{}
		case *sdcpb.TypedValue:
			return x
		}
		return nil
	}
	vs := []c20Value{
		{"nil-typedvalue", nil},
		{"nil-oneof", tv(nil)},
		{"any-nil", &sdcpb.TypedValue{Value: &sdcpb.TypedValue_AnyVal{}}},
		{"any", &sdcpb.TypedValue{Value: &sdcpb.TypedValue_AnyVal{AnyVal: &anypb.Any{TypeUrl: "x", Value: []byte("y")}}}},
		{"ascii", &sdcpb.TypedValue{Value: &sdcpb.TypedValue_AsciiVal{AsciiVal: "x"}}},
		{"bool", &sdcpb.TypedValue{Value: &sdcpb.TypedValue_BoolVal{BoolVal: true}}},
		{"bytes", &sdcpb.TypedValue{Value: &sdcpb.TypedValue_BytesVal{BytesVal: []byte{0, 255}}}},
		{"bytes-nil", &sdcpb.TypedValue{Value: &sdcpb.TypedValue_BytesVal{}}},
		{"decimal-nil", &sdcpb.TypedValue{Value: &sdcpb.TypedValue_DecimalVal{}}},
		{"decimal", &sdcpb.TypedValue{Value: &sdcpb.TypedValue_DecimalVal{DecimalVal: &sdcpb.Decimal64{Digits: -5, Precision: 2}}}},
		{"decimal-huge-precision", &sdcpb.TypedValue{Value: &sdcpb.TypedValue_DecimalVal{DecimalVal: &sdcpb.Decimal64{Digits: math.MinInt64, Precision: 4000000000}}}},
		{"float", &sdcpb.TypedValue{Value: &sdcpb.TypedValue_FloatVal{FloatVal: 1.5}}},
		{"double-nan", &sdcpb.TypedValue{Value: &sdcpb.TypedValue_DoubleVal{DoubleVal: math.NaN()}}},
		{"int-min", &sdcpb.TypedValue{Value: &sdcpb.TypedValue_IntVal{IntVal: math.MinInt64}}},
		{"uint-max", &sdcpb.TypedValue{Value: &sdcpb.TypedValue_UintVal{UintVal: math.MaxUint64}}},
		{"string-empty", &sdcpb.TypedValue{Value: &sdcpb.TypedValue_StringVal{}}},
		{"string", &sdcpb.TypedValue{Value: &sdcpb.TypedValue_StringVal{StringVal: "x"}}},
		{"string-number", &sdcpb.TypedValue{Value: &sdcpb.TypedValue_StringVal{StringVal: "1"}}},
		{"string-dot", &sdcpb.TypedValue{Value: &sdcpb.TypedValue_StringVal{StringVal: "."}}},
		{"string-colon", &sdcpb.TypedValue{Value: &sdcpb.TypedValue_StringVal{StringVal: ":"}}},
		{"empty-nil", &sdcpb.TypedValue{Value: &sdcpb.TypedValue_EmptyVal{}}},
		{"empty", &sdcpb.TypedValue{Value: &sdcpb.TypedValue_EmptyVal{EmptyVal: &emptypb.Empty{}}}},
		{"identityref-nil", &sdcpb.TypedValue{Value: &sdcpb.TypedValue_IdentityrefVal{}}},
		{"identityref", &sdcpb.TypedValue{Value: &sdcpb.TypedValue_IdentityrefVal{IdentityrefVal: &sdcpb.IdentityRef{Value: "nosuch"}}}},
		{"leaflist-nil", &sdcpb.TypedValue{Value: &sdcpb.TypedValue_LeaflistVal{}}},
		{"leaflist-empty", &sdcpb.TypedValue{Value: &sdcpb.TypedValue_LeaflistVal{LeaflistVal: &sdcpb.ScalarArray{}}}},
		{"leaflist-nil-element", &sdcpb.TypedValue{Value: &sdcpb.TypedValue_LeaflistVal{LeaflistVal: &sdcpb.ScalarArray{Element: []*sdcpb.TypedValue{nil}}}}},
		{"leaflist-mixed", &sdcpb.TypedValue{Value: &sdcpb.TypedValue_LeaflistVal{LeaflistVal: &sdcpb.ScalarArray{Element: []*sdcpb.TypedValue{
			{Value: &sdcpb.TypedValue_StringVal{StringVal: "a"}}, {Value: &sdcpb.TypedValue_UintVal{UintVal: 1}}, {}, {Value: &sdcpb.TypedValue_LeaflistVal{}}}}}}},
		{"protobytes", &sdcpb.TypedValue{Value: &sdcpb.TypedValue_ProtoBytes{ProtoBytes: []byte{1}}}},
	}
	for i, d := range c20JSONDocs {
		vs = append(vs, c20Value{fmt.Sprintf("json-%d", i), &sdcpb.TypedValue{Value: &sdcpb.TypedValue_JsonVal{JsonVal: []byte(d)}}})
		vs = append(vs, c20Value{fmt.Sprintf("json-ietf-%d", i), &sdcpb.TypedValue{Value: &sdcpb.TypedValue_JsonIetfVal{JsonIetfVal: []byte(d)}}})
	}
	return vs
}

func peerCtx() context.Context {
	return peer.NewContext(context.Background(), &peer.Peer{Addr: fakeAddr("10.0.0.1:1234")})
}

type fakeAddr string

func (f fakeAddr) Network() string { return "tcp" }
func (f fakeAddr) String() string  { return string(f) }

// newServer builds a server (hook constructor) holding one datastore of the world.
func newServer(w *World) *server.Server {
	s := server.NewForVerif(&dconfig.Config{DefaultTransactionTimeout: time.Hour})
	s.VerifAddDatastore(w.Name, w.DS)
	return s
}

func c20RequestCases() []c20Case {
	var cs []c20Case
	for _, p := range c20Paths() {
		for _, v := range c20Values() {
			p, v := p, v
			kind := "set:" + p.Name + ":" + strings.TrimRight(v.Name, "0123456789")
			cs = append(cs, c20Case{Kind: kind, Desc: fmt.Sprintf("TransactionSet update path=%s value=%s", p.Name, v.Name), Run: func(env *c20Env) string {
				w := env.world(WorldOpts{})
				defer w.Close()
				s := newServer(w)
				req := &sdcpb.TransactionSetRequest{DatastoreName: w.Name, TransactionId: "t", Intents: []*sdcpb.TransactionIntent{
					{Intent: "A", Priority: 10, Update: []*sdcpb.Update{{Path: p.P, Value: v.V}}}}}
				_, err := s.TransactionSet(peerCtx(), req)
				_, _ = s.TransactionConfirm(peerCtx(), &sdcpb.TransactionConfirmRequest{DatastoreName: w.Name, TransactionId: "t"})
				// the same as replace intent and as a dry run
				req2 := &sdcpb.TransactionSetRequest{DatastoreName: w.Name, TransactionId: "t2", DryRun: true, ReplaceIntent: &sdcpb.TransactionIntent{Update: []*sdcpb.Update{{Path: p.P, Value: v.V}}}}
				_, err2 := s.TransactionSet(peerCtx(), req2)
				_, _ = s.TransactionCancel(peerCtx(), &sdcpb.TransactionCancelRequest{DatastoreName: w.Name, TransactionId: "t2"})
				return errStr(err) + "/" + errStr(err2)
			}})
		}
	}
	// intent names, priorities, flags
	for _, name := range []string{"", "a,b", "a_b", "running", "default", "replace", "a/b", strings.Repeat("n", 70000)} {
		for _, prio := range []int32{0, -1, 1, math.MaxInt32, math.MinInt32} {
			for _, fl := range []string{"set", "delete", "orphan", "delete-with-updates", "no-updates"} {
				name, prio, fl := name, prio, fl
				nm := name
				if len(nm) > 10 {
					nm = "long"
				}
				cs = append(cs, c20Case{Kind: "intent-meta:" + fl, Desc: fmt.Sprintf("intent name=%q priority=%d %s", nm, prio, fl), Run: func(env *c20Env) string {
					w := env.world(WorldOpts{})
					defer w.Close()
					s := newServer(w)
					ti := &sdcpb.TransactionIntent{Intent: name, Priority: prio}
					upd := []*sdcpb.Update{{Path: P("sys", "hostname").Sdcpb(), Value: &sdcpb.TypedValue{Value: &sdcpb.TypedValue_StringVal{StringVal: "h"}}}}
					switch fl {
					case "set":
						ti.Update = upd
					case "delete":
						ti.Delete = true
					case "orphan":
						ti.Delete, ti.Orphan = true, true
					case "delete-with-updates":
						ti.Delete, ti.Update = true, upd
					}
					r := ""
					for i := 0; i < 2; i++ { // twice: the second one meets stored state
						id := fmt.Sprintf("t%d", i)
						_, err := s.TransactionSet(peerCtx(), &sdcpb.TransactionSetRequest{DatastoreName: w.Name, TransactionId: id, Intents: []*sdcpb.TransactionIntent{ti, nil}[:1]})
						_, _ = s.TransactionConfirm(peerCtx(), &sdcpb.TransactionConfirmRequest{DatastoreName: w.Name, TransactionId: id})
						r += errStr(err)
					}
					return r
				}})
			}
		}
	}
	// request-level oddities
	odd := []struct {
		name string
		req  *sdcpb.TransactionSetRequest
	}{
		{"nil-intent", &sdcpb.TransactionSetRequest{TransactionId: "t", Intents: []*sdcpb.TransactionIntent{nil}}},
		{"nil-update", &sdcpb.TransactionSetRequest{TransactionId: "t", Intents: []*sdcpb.TransactionIntent{{Intent: "A", Priority: 1, Update: []*sdcpb.Update{nil}}}}},
		{"same-intent-twice", &sdcpb.TransactionSetRequest{TransactionId: "t", Intents: []*sdcpb.TransactionIntent{{Intent: "A", Priority: 1}, {Intent: "A", Priority: 2}}}},
		{"empty-transaction-id", &sdcpb.TransactionSetRequest{TransactionId: "", Intents: []*sdcpb.TransactionIntent{{Intent: "A", Priority: 1, Delete: true}}}},
		{"no-intents", &sdcpb.TransactionSetRequest{TransactionId: "t"}},
		{"empty-replace", &sdcpb.TransactionSetRequest{TransactionId: "t", ReplaceIntent: &sdcpb.TransactionIntent{}}},
		{"timeout-zero", &sdcpb.TransactionSetRequest{TransactionId: "t", Timeout: new(int32), Intents: []*sdcpb.TransactionIntent{{Intent: "A", Priority: 1, Update: []*sdcpb.Update{{Path: P("sys", "hostname").Sdcpb(), Value: &sdcpb.TypedValue{Value: &sdcpb.TypedValue_StringVal{StringVal: "h"}}}}}}}},
	}
	for _, o := range odd {
		o := o
		cs = append(cs, c20Case{Kind: "request:" + o.name, Desc: "TransactionSet " + o.name, Run: func(env *c20Env) string {
			w := env.world(WorldOpts{})
			defer w.Close()
			s := newServer(w)
			o.req.DatastoreName = w.Name
			_, err := s.TransactionSet(peerCtx(), o.req)
			time.Sleep(5 * time.Millisecond) // lets a zero timeout fire
			_, _ = s.TransactionConfirm(peerCtx(), &sdcpb.TransactionConfirmRequest{DatastoreName: w.Name, TransactionId: o.req.TransactionId})
			return errStr(err)
		}})
	}
	// GetData / Subscribe with every path and odd selectors
	for _, p := range c20Paths() {
		p := p
		cs = append(cs, c20Case{Kind: "getdata:" + p.Name, Desc: "GetData / Subscribe path=" + p.Name, Run: func(env *c20Env) string {
			w := env.world(WorldOpts{})
			defer w.Close()
			_ = w.PreloadStore(0, []Leaf{leaf("h", "sys", "hostname"), leaf("d", "if", e1, "descr"), leaf("e1", "if", e1, "name"), leafEmpty("sys", "banner"), leaf("t", "sys", "banner", "text")})
			s := newServer(w)
			r := ""
			for _, enc := range []sdcpb.Encoding{sdcpb.Encoding_STRING, sdcpb.Encoding_JSON, sdcpb.Encoding_JSON_IETF, sdcpb.Encoding_PROTO, sdcpb.Encoding(99)} {
				for _, ty := range []sdcpb.Type{sdcpb.Type_MAIN, sdcpb.Type_INTENDED, sdcpb.Type_CANDIDATE, sdcpb.Type(77)} {
					st := &getDataStream{ctx: peerCtx()}
					err := s.GetData(&sdcpb.GetDataRequest{Name: w.Name, Path: []*sdcpb.Path{p.P}, Encoding: enc, Datastore: &sdcpb.DataStore{Type: ty, Owner: "A", Priority: -3}}, st)
					r += errStr(err)[:1]
					// the same path together with paths above and below stored nodes (a presence container is stored like a leaf)
					st2 := &getDataStream{ctx: peerCtx()}
					err = s.GetData(&sdcpb.GetDataRequest{Name: w.Name, Path: []*sdcpb.Path{P("sys", "banner", "text").Sdcpb(), p.P, P("sys").Sdcpb(), P("if", e1, "descr").Sdcpb()}, Encoding: enc, Datastore: &sdcpb.DataStore{Type: ty}}, st2)
					r += errStr(err)[:1]
				}
			}
			ctx, cancel := context.WithTimeout(peerCtx(), 30*time.Millisecond)
			defer cancel()
			sst := &subscribeStream{ctx: ctx}
			err := s.Subscribe(&sdcpb.SubscribeRequest{Name: w.Name, Subscription: []*sdcpb.Subscription{{Path: []*sdcpb.Path{p.P}, SampleInterval: 0}}}, sst)
			return r + errStr(err)
		}})
	}
	return cs
}

type getDataStream struct {
	ctx context.Context
	n   int
	fakeServerStream
}

func (g *getDataStream) Send(*sdcpb.GetDataResponse) error { g.n++; return nil }
func (g *getDataStream) Context() context.Context           { return g.ctx }

type subscribeStream struct {
	ctx context.Context
	n   int
	fakeServerStream
}

func (g *subscribeStream) Send(*sdcpb.SubscribeResponse) error { g.n++; return nil }
func (g *subscribeStream) Context() context.Context             { return g.ctx }

// ---------------------------------------------------------------------------
// (c) device input

func c20Notifications() []struct {
	Name string
	N    *sdcpb.Notification
} {
	type nn = struct {
		Name string
		N    *sdcpb.Notification
	}
	var res []nn
	for _, p := range c20Paths() {
		for _, v := range c20Values() {
			if strings.HasPrefix(v.Name, "json") && !strings.HasSuffix(v.Name, "-0") && !strings.HasSuffix(v.Name, "-4") && !strings.HasSuffix(v.Name, "-11") && !strings.HasSuffix(v.Name, "-15") {
				continue // a slice of the JSON documents is enough on the device side
			}
			res = append(res, nn{"upd:" + p.Name + ":" + v.Name, &sdcpb.Notification{Update: []*sdcpb.Update{{Path: p.P, Value: v.V}}}})
		}
		res = append(res, nn{"del:" + p.Name, &sdcpb.Notification{Delete: []*sdcpb.Path{p.P}}})
	}
	res = append(res, nn{"nil-update", &sdcpb.Notification{Update: []*sdcpb.Update{nil}}}, nn{"nil-delete", &sdcpb.Notification{Delete: []*sdcpb.Path{nil}}}, nn{"empty", &sdcpb.Notification{}})
	return res
}

var c20XMLDocs = []string{
	`<data/>`, `<data></data>`, `<x/>`, `<data><nosuch/></data>`,
	`<data><sys xmlns="urn:verif:vm"><hostname>h</hostname></sys></data>`,
	`<data><sys xmlns="urn:verif:vm"><mtu></mtu></sys></data>`,
	`<data><sys xmlns="urn:verif:vm"><mtu>x</mtu><dns/><dns>a</dns><banner/></sys></data>`,
	`<data><sys xmlns="urn:verif:vm"><nosuch>1</nosuch></sys></data>`,
	`<data><sys xmlns="urn:verif:vm"><hostname><x/></hostname></sys></data>`,
	`<data><if xmlns="urn:verif:vm"><descr>no key</descr></if></data>`,
	`<data><if xmlns="urn:verif:vm"><name/><descr>empty key</descr></if></data>`,
	`<data><if xmlns="urn:verif:vm"><name>e1</name><unit><vlan>5</vlan></unit></if></data>`,
	`<data><if xmlns="urn:verif:vm"><name>e1</name><name>e2</name></if></data>`,
	`<data><if xmlns="urn:verif:vm">text</if></data>`,
	`<data><dns xmlns="urn:verif:vm">top-level-leaflist</dns></data>`,
	`<data><hostname xmlns="urn:verif:vm">top-level-leaf</hostname></data>`,
	`<data><tl xmlns="urn:verif:vm">a</tl><tl xmlns="urn:verif:vm">b</tl></data>`,
	`<data><tleaf xmlns="urn:verif:vm">x</tleaf></data>`,
	`<data><dk xmlns="urn:verif:vm"><zk>1</zk><v>x</v></dk></data>`,
	`<data><types xmlns="urn:verif:vm"><u8></u8><i8>-</i8><d1>.</d1><d2>1.</d2><bo>maybe</bo><em>x</em><en/><idr>:</idr><idr>x:</idr><un/><ll-i8/><ll-d2>x</ll-d2></types></data>`,
	`<data><mode xmlns="urn:verif:vm"><a>1</a><b>2</b><x/><y/></mode></data>`,
	`<data><refs xmlns="urn:verif:vm"><uplink/><ll>300</ll></refs></data>`,
	`<data><sys xmlns="urn:other"><hostname>h</hostname></sys></data>`,
	`<rpc-reply><data><sys xmlns="urn:verif:vm"><banner><text/></banner></sys></data></rpc-reply>`,
}

func c20DeviceCases() []c20Case {
	var cs []c20Case
	for _, n := range c20Notifications() {
		for _, validate := range []bool{false, true} {
			n, validate := n, validate
			kparts := strings.SplitN(n.Name, ":", 3)
			kind := "sync:" + kparts[0]
			if len(kparts) > 1 {
				kind += ":" + kparts[1]
			}
			if len(kparts) > 2 {
				kind += ":" + strings.TrimRight(kparts[2], "0123456789")
			}
			cs = append(cs, c20Case{Kind: kind, Desc: fmt.Sprintf("device notification %s (sync validation %v)", n.Name, validate), Run: func(env *c20Env) string {
				w := env.world(WorldOpts{Sync: &dconfig.Sync{Validate: validate, WriteWorkers: 1, Buffer: 0}})
				defer w.Close()
				ctx, cancel := context.WithCancel(context.Background())
				defer cancel()
				go w.DS.Sync(ctx)
				ch := w.DS.VerifSyncChannel()
				dummy := func() *target.SyncUpdate {
					return &target.SyncUpdate{Update: &sdcpb.Notification{Update: []*sdcpb.Update{{Path: P("sys", "mtu-ext").Sdcpb(), Value: &sdcpb.TypedValue{Value: &sdcpb.TypedValue_StringVal{StringVal: "d"}}}}}}
				}
				ch <- &target.SyncUpdate{Start: true}
				ch <- &target.SyncUpdate{Update: n.N}
				ch <- &target.SyncUpdate{End: true}
				ch <- dummy()
				ch <- dummy() // once this is taken, the notification under test has been processed completely
				return "ok"
			}})
		}
	}
	for i, d := range c20XMLDocs {
		d := d
		cs = append(cs, c20Case{Kind: "netconf-xml", Desc: fmt.Sprintf("NETCONF reply #%d %s", i, d), Run: func(env *c20Env) string {
			w := env.world(WorldOpts{})
			defer w.Close()
			doc := etree.NewDocument()
			if err := doc.ReadFromString(d); err != nil {
				return "not-xml"
			}
			ad := netconf.NewXML2sdcpbConfigAdapter(w.DS.VerifSchemaClient())
			_, err := ad.Transform(context.Background(), doc)
			// the XML tree importer on the same document
			ctx := context.Background()
			tc := tree.NewTreeContext(tree.NewTreeCacheClient(w.Name, w.Raw), w.DS.VerifSchemaClient(), "running")
			root, rerr := tree.NewTreeRoot(ctx, tc)
			var ierr error
			if rerr == nil && doc.Root() != nil {
				ierr = root.ImportConfig(ctx, xmlImporter.NewXmlTreeImporter(doc.Root()), "running", 5)
				if ierr == nil {
					root.FinishInsertionPhase(ctx)
					_, _ = root.ToJson(false)
					_, _ = root.ToXML(false, true, false, false)
				}
			}
			return errStr(err) + "/" + errStr(ierr)
		}})
	}
	for i, d := range c20JSONDocs {
		d := d
		cs = append(cs, c20Case{Kind: "json-import", Desc: fmt.Sprintf("JSON tree import #%d %s", i, d), Run: func(env *c20Env) string {
			w := env.world(WorldOpts{})
			defer w.Close()
			var v any
			if err := json.Unmarshal([]byte(d), &v); err != nil {
				return "not-json"
			}
			ctx := context.Background()
			r := ""
			for _, at := range [][]string{nil, {"sys"}, {"if"}, {"types"}} {
				tc := tree.NewTreeContext(tree.NewTreeCacheClient(w.Name, w.Raw), w.DS.VerifSchemaClient(), "A")
				root, err := tree.NewTreeRoot(ctx, tc)
				if err != nil {
					return "root-error"
				}
				var doc any = v
				for i := len(at) - 1; i >= 0; i-- {
					doc = map[string]any{at[i]: doc}
				}
				ierr := root.ImportConfig(ctx, jsonImporter.NewJsonTreeImporter(doc), "A", 5)
				if ierr == nil {
					root.FinishInsertionPhase(ctx)
					_, _ = root.ToJsonIETF(false)
				}
				r += errStr(ierr)[:1]
			}
			return r
		}})
	}
	return cs
}


// ---------------------------------------------------------------------------
// stored state x request: what the device reported (running store) differs in shape from what an intent holds

type c20Stored struct {
	Name string
	TV   *sdcpb.TypedValue
}

func c20StoredValues() []c20Stored {
	str := func(s string) *sdcpb.TypedValue { return &sdcpb.TypedValue{Value: &sdcpb.TypedValue_StringVal{StringVal: s}} }
	uin := func(u uint64) *sdcpb.TypedValue { return &sdcpb.TypedValue{Value: &sdcpb.TypedValue_UintVal{UintVal: u}} }
	ll := func(els ...*sdcpb.TypedValue) *sdcpb.TypedValue {
		return &sdcpb.TypedValue{Value: &sdcpb.TypedValue_LeaflistVal{LeaflistVal: &sdcpb.ScalarArray{Element: els}}}
	}
	return []c20Stored{
		{"ll-empty", ll()}, {"ll-a", ll(str("a"))}, {"ll-ab", ll(str("a"), str("b"))}, {"ll-abc", ll(str("a"), str("b"), str("c"))},
		{"ll-ba", ll(str("b"), str("a"))}, {"ll-uint", ll(uin(1), uin(2), uin(3))}, {"ll-nil-elem", ll(str("a"), nil)}, {"ll-nil-array", &sdcpb.TypedValue{Value: &sdcpb.TypedValue_LeaflistVal{}}},
		{"str", str("a")}, {"uint", uin(1400)}, {"int", &sdcpb.TypedValue{Value: &sdcpb.TypedValue_IntVal{IntVal: -1}}}, {"bool", &sdcpb.TypedValue{Value: &sdcpb.TypedValue_BoolVal{BoolVal: true}}},
		{"empty", &sdcpb.TypedValue{Value: &sdcpb.TypedValue_EmptyVal{}}}, {"no-value", &sdcpb.TypedValue{}}, {"decimal-nil", &sdcpb.TypedValue{Value: &sdcpb.TypedValue_DecimalVal{}}},
		{"identityref-nil", &sdcpb.TypedValue{Value: &sdcpb.TypedValue_IdentityrefVal{}}}, {"json", &sdcpb.TypedValue{Value: &sdcpb.TypedValue_JsonVal{JsonVal: []byte(`{"a":1}`)}}},
		{"bytes", &sdcpb.TypedValue{Value: &sdcpb.TypedValue_BytesVal{BytesVal: []byte{0xff}}}}, {"undecodable", nil},
	}
}

func c20StateCases() []c20Case {
	var cs []c20Case
	leaves := []struct {
		Name   string
		Intent Leaf
	}{
		{"leaf-list", leafLL([]string{"a", "b"}, "sys", "dns")},
		{"leaf-list-in-list", leafLL([]string{"a", "b"}, "if", e1, "tags")},
		{"leaf-list-uint", Leaf{P: P("refs", "ll"), LLU: []uint64{1, 2}}},
		{"string", leaf("a", "sys", "hostname")},
		{"uint", leaf("1400", "sys", "mtu")},
		{"bool", leaf("true", "if", e1, "enabled")},
		{"presence", leafEmpty("sys", "banner")},
	}
	for _, l := range leaves {
		for _, sv := range c20StoredValues() {
			l, sv := l, sv
			cs = append(cs, c20Case{Kind: "stored:" + l.Name + ":" + strings.TrimRight(sv.Name, "0123456789"), Desc: fmt.Sprintf("running store holds %s at a %s leaf that an intent configures", sv.Name, l.Name), Run: func(env *c20Env) string {
				w := env.world(WorldOpts{})
				defer w.Close()
				ctx := context.Background()
				s := newServer(w)
				set := func(id, owner string, prio int32, lf Leaf) error {
					req := &sdcpb.TransactionSetRequest{DatastoreName: w.Name, TransactionId: id, Intents: []*sdcpb.TransactionIntent{
						{Intent: owner, Priority: prio, Update: []*sdcpb.Update{{Path: lf.P.Sdcpb(), Value: lf.Value()}}}}}
					_, err := s.TransactionSet(peerCtx(), req)
					_, _ = s.TransactionConfirm(peerCtx(), &sdcpb.TransactionConfirmRequest{DatastoreName: w.Name, TransactionId: id})
					return err
				}
				err1 := set("t1", "A", 10, l.Intent)
				// the device reports something else for the same path
				var b []byte
				if sv.TV != nil {
					b, _ = proto.Marshal(sv.TV)
				} else {
					b = []byte{0xff, 0xff, 0xff}
				}
				_ = w.Raw.Modify(ctx, w.Name, &cache.Opts{Store: cachepb.Store_CONFIG}, nil, []*cache.Update{cache.NewUpdate(utils.ToStrings(l.Intent.P.Sdcpb(), false, false), b, 0, "", 0)})
				err2 := set("t2", "A", 10, l.Intent)                     // the same intent again
				err3 := set("t3", "B", 20, leaf("x", "sys", "mtu-ext")) // an unrelated intent
				err4 := set("t4", "C", 5, l.Intent)                      // a ruling intent for the path
				st := &devStream{}
				w.DS.VerifRunDeviationCycle(ctx, map[string]sdcpb.DataServer_WatchDeviationsServer{"client1": st})
				r := errStr(err1)[:1] + errStr(err2)[:1] + errStr(err3)[:1] + errStr(err4)[:1]
				for _, enc := range []sdcpb.Encoding{sdcpb.Encoding_STRING, sdcpb.Encoding_JSON, sdcpb.Encoding_JSON_IETF, sdcpb.Encoding_PROTO} {
					gst := &getDataStream{ctx: peerCtx()}
					err := s.GetData(&sdcpb.GetDataRequest{Name: w.Name, Path: []*sdcpb.Path{l.Intent.P[:1].Sdcpb()}, Encoding: enc, Datastore: &sdcpb.DataStore{Type: sdcpb.Type_MAIN}}, gst)
					r += errStr(err)[:1]
				}
				return r
			}})
		}
	}
	return cs
}

// ---------------------------------------------------------------------------
// driver

func c20AllCases() []c20Case {
	maxLen := 6
	if Tier() == "thorough" {
		maxLen = 7
	}
	cs := c20PathCases(maxLen)
	cs = append(cs, c20RequestCases()...)
	cs = append(cs, c20DeviceCases()...)
	cs = append(cs, c20StateCases()...)
	return cs
}

// runC20Worker executes the cases with index ≡ rem (mod step), starting at from.
func runC20Worker(args []string) int {
	from, _ := strconv.Atoi(args[0])
	step, _ := strconv.Atoi(args[1])
	u, err := LoadUniverse()
	if err != nil {
		return fail(err)
	}
	env := &c20Env{U: u, WC: NewWorkerCache()}
	defer env.WC.Close()
	cs := c20AllCases()
	out := bufio.NewWriter(os.Stdout)
	for i := from; i < len(cs); i += step {
		fmt.Fprintf(out, "START %d\n", i)
		out.Flush()
		res := func() (r string) {
			defer func() {
				if p := recover(); p != nil {
					r = fmt.Sprintf("PANIC %v @@ %s", p, string(debug.Stack()))
				}
			}()
			return "DONE " + cs[i].Run(env)
		}()
		fmt.Fprintf(out, "%s %d %s\n", strings.SplitN(res, " ", 2)[0], i, strings.ReplaceAll(strings.SplitN(res+" ", " ", 2)[1], "\n", " "))
		out.Flush()
	}
	return 0
}

func runC20() int {
	rep := NewReporter("C20", "exploration")
	rep.Assumptions = []string{
		"crash oracle: a case violates the property if it panics (in any goroutine: cases run in worker subprocesses), exhausts the stack, or does not return within 30 s (re-run up to 3 times before it is reported)",
		"inputs are bounded-exhaustive: all path strings up to the stated length over a 9-character alphabet; the cross product of 53 paths x 95 typed values (all 17 oneof kinds, nil forms, 33 JSON documents as JSON and JSON_IETF) through pkg/server TransactionSet (also as replace intent + dry run); intent names x priorities x flags; GetData/Subscribe selector cross product; device notifications (update and delete) for every path x value with sync validation on and off; 22 NETCONF XML replies through the adapter and the XML importer; 33 JSON documents through the JSON importer",
	}
	cs := c20AllCases()
	self, err := os.Executable()
	if err != nil {
		return fail(err)
	}
	const workers = 16
	type result struct {
		idx     int
		outcome string // DONE / PANIC / CRASH / HANG
		info    string
	}
	results := make(chan result, 1024)
	var wg sync.WaitGroup
	runWorker := func(from, step int) {
		defer wg.Done()
		next := from
		retries := map[int]int{}
		for next < len(cs) {
			cmd := exec.Command(self, "C20worker", strconv.Itoa(next), strconv.Itoa(step))
			cmd.Env = os.Environ()
			stdout, _ := cmd.StdoutPipe()
			var stderr strings.Builder
			cmd.Stderr = &limitedWriter{b: &stderr, max: 1 << 16}
			if err := cmd.Start(); err != nil {
				results <- result{next, "CRASH", "cannot start worker: " + err.Error()}
				return
			}
			lines := make(chan string, 16)
			go func() {
				sc := bufio.NewScanner(stdout)
				sc.Buffer(make([]byte, 1<<20), 1<<20)
				for sc.Scan() {
					lines <- sc.Text()
				}
				close(lines)
			}()
			current := -1
			dead := false
			for !dead {
				select {
				case l, ok := <-lines:
					if !ok {
						dead = true
						break
					}
					parts := strings.SplitN(l, " ", 3)
					if len(parts) < 2 {
						continue
					}
					i, _ := strconv.Atoi(parts[1])
					switch parts[0] {
					case "START":
						current = i
					case "DONE", "PANIC":
						info := ""
						if len(parts) > 2 {
							info = parts[2]
						}
						results <- result{i, parts[0], info}
						current = -1
						next = i + step
					}
				case <-time.After(30 * time.Second):
					// SIGQUIT makes the Go runtime dump all goroutine stacks (call site of the hang) before exiting
					_ = cmd.Process.Signal(syscall.SIGQUIT)
					time.Sleep(2 * time.Second)
					_ = cmd.Process.Kill()
					dead = true
					if current >= 0 {
						retries[current]++
						if retries[current] >= 3 {
							results <- result{current, "HANG", "no answer within 30 s in 3 attempts @@ " + stderr.String()}
							next = current + step
						} else {
							next = current
						}
						current = -2
					}
				}
			}
			_ = cmd.Wait()
			if current >= 0 {
				// the worker died while running case `current`
				tail := stderr.String()
				if len(tail) > 1500 {
					tail = tail[:1500]
				}
				results <- result{current, "CRASH", tail}
				next = current + step
			} else if current == -1 && next < len(cs) {
				// worker ended normally or died between cases: continue from next
				if cmd.ProcessState != nil && cmd.ProcessState.Success() {
					return
				}
			}
		}
	}
	for wkr := 0; wkr < workers; wkr++ {
		wg.Add(1)
		go runWorker(wkr, workers)
	}
	go func() { wg.Wait(); close(results) }()
	evals := 0
	kinds := map[string]bool{}
	outcomes := map[string]int{}
	var samples []any
	seen := map[int]bool{}
	for r := range results {
		if seen[r.idx] {
			continue
		}
		seen[r.idx] = true
		evals++
		c := cs[r.idx]
		kinds[c.Kind] = true
		outcomes[r.outcome]++
		if len(samples) < 8 && evals%997 == 0 {
			samples = append(samples, map[string]any{"case": c.Desc, "outcome": r.outcome + " " + r.info})
		}
		if r.outcome != "DONE" {
			clause := map[string]string{"PANIC": "panic", "CRASH": "crash", "HANG": "hang"}[r.outcome]
			site := crashSite(r.info)
			sig := clause + "@" + site
			if site == "" {
				sig = clause + ":" + c.Kind
			}
			rep.Add(&Violation{Clause: clause, Sig: sig, Detail: fmt.Sprintf("%s: %s", c.Desc, firstLines(r.info, 12)), Engine: "E3-inputs",
				Case: map[string]any{"case_index": r.idx, "description": c.Desc}})
		}
	}
	missing := len(cs) - evals
	cov := map[string]any{
		"evaluations":         evals,
		"distinct_nontrivial": len(kinds),
		"rule":                "cases are enumerated deterministically (same list in parent and workers) and executed in 16 worker subprocesses; a case class is distinct by (entry point, path class, value kind)",
		"samples":             samples,
		"outcomes":            outcomes,
		"cases_total":         len(cs),
		"cases_without_answer": missing,
		"path_string_max_len": map[bool]int{true: 7, false: 6}[Tier() == "thorough"],
		"alphabet":            strings.Join(c20PathAlphabet, ""),
		"exhaustive":          missing == 0,
	}
	return rep.Finish(cov)
}

type limitedWriter struct {
	b   *strings.Builder
	max int
	mu  sync.Mutex
}

func (l *limitedWriter) Write(p []byte) (int, error) {
	l.mu.Lock()
	defer l.mu.Unlock()
	if l.b.Len() < l.max {
		l.b.Write(p)
	}
	return len(p), nil
}

func firstLines(s string, n int) string {
	ls := strings.Split(s, "\n")
	if len(ls) > n {
		ls = ls[:n]
	}
	return strings.Join(ls, " | ")
}

func init() {
	Checks["C20"] = func([]string) int { return runC20() }
	Checks["C20worker"] = runC20Worker
}

var dsFrame = regexp.MustCompile(`github\.com/sdcio/data-server/pkg/([\w/\-]+)\.((?:\(\*?\w+\)\.)?\w+)`)

// crashSite extracts the first data-server function of a panic / crash trace (the call site that fails).
func crashSite(trace string) string {
	for _, m := range dsFrame.FindAllStringSubmatch(trace, -1) {
		if strings.Contains(m[1], "verifrt") {
			continue
		}
		return m[1] + "." + m[2]
	}
	return ""
}
