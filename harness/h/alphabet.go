package h

// The intent alphabet of DESIGN §2.1: small, sharp, forced to collide.

func leaf(v string, parts ...any) Leaf      { return Leaf{P: P(parts...), V: v} }
func leafLL(v []string, parts ...any) Leaf  { return Leaf{P: P(parts...), LL: v} }
func leafEmpty(parts ...any) Leaf           { return Leaf{P: P(parts...), Empty: true} }

var (
	e1  = K{"name", "e1"}
	e10 = K{"name", "e10"}
	e2  = K{"name", "e2"}
)

// CoreFragments carry no must/leafref/mandatory/choice nodes: every single-owner transaction is schema-valid.
func CoreFragments() map[string]*Fragment {
	fs := []*Fragment{
		{Name: "fa", Leaves: []Leaf{
			leaf("r1", "sys", "hostname"),
			leaf("one", "if", e1, "descr"),
			leaf("1g", "if", e1, "speed"),
		}},
		{Name: "fa1", Leaves: []Leaf{ // differs from fa in exactly one leaf value
			leaf("r9", "sys", "hostname"),
			leaf("one", "if", e1, "descr"),
			leaf("1g", "if", e1, "speed"),
		}},
		{Name: "fb", Leaves: []Leaf{
			leaf("r2", "sys", "hostname"),
			leaf("two", "if", e1, "descr"),
			leaf("ten", "if", e10, "descr"),
		}},
		{Name: "fc", Leaves: []Leaf{ // superset of fa
			leaf("r1", "sys", "hostname"),
			leaf("one", "if", e1, "descr"),
			leaf("1g", "if", e1, "speed"),
			leaf("false", "if", e1, "enabled"),
			leafLL([]string{"a", "b"}, "sys", "dns"),
		}},
		{Name: "fd", Leaves: []Leaf{
			leafLL([]string{"b", "c"}, "sys", "dns"),
			leafEmpty("sys", "banner"),
			leaf("x", "ifx", K{"name", "e1"}, "descr"),
		}},
		{Name: "fp", Leaves: []Leaf{ // only a child below the presence container that fd defines itself
			leaf("hello", "sys", "banner", "text"),
			leafLL([]string{"a", "b"}, "sys", "dns"),
		}},
		{Name: "fe", Leaves: []Leaf{ // key-only entry
			leaf("e2", "if", e2, "name"),
		}},
		{Name: "fg", Leaves: []Leaf{
			leaf("9000", "sys", "mtu"),
			leaf("x", "sys", "mtu-ext"),
			leaf("10", "if", e1, "unit", K{"id", "1"}, "vlan"),
		}},
		{Name: "fw", Leaves: []Leaf{ // valid with a warning: an optional leafref (require-instance false) that resolves to nothing
			leaf("e8", "refs", "opt-uplink"),
			leaf("w", "sys", "mtu-ext"),
		}},
		{Name: "fw2", Leaves: []Leaf{
			leaf("e9", "refs", "opt-uplink"),
			leaf("w2", "sys", "mtu-ext"),
		}},
		{Name: "fm", Leaves: []Leaf{ // the only value of its owner in container sys is a leaf that has a schema default
			leaf("500", "sys", "mtu"),
		}},
		{Name: "fh", Leaves: []Leaf{ // second namespace
			leaf("noc", "sys", "contact"),
			leaf("note", "if", e1, "ext-note"),
			leaf("r3", "sys", "hostname"),
		}},
	}
	m := map[string]*Fragment{}
	for _, f := range fs {
		m[f.Name] = f
	}
	return m
}

// MultiKeyFragments exercise lists with 2 and 3 keys declared in non-alphabetical order.
func MultiKeyFragments() map[string]*Fragment {
	fs := []*Fragment{
		{Name: "mk1", Leaves: []Leaf{
			leaf("v1", "tk", K{"c", "c1"}, K{"a", "a1"}, K{"b", "b1"}, "v"),
		}},
		{Name: "mk2", Leaves: []Leaf{
			leaf("v2", "tk", K{"c", "c1"}, K{"a", "a1"}, K{"b", "b1"}, "v"),
			leaf("w", "tk", K{"c", "a1"}, K{"a", "c1"}, K{"b", "b1"}, "v"),
		}},
		{Name: "mk4", Leaves: []Leaf{ // keys declared in alphabetical order
			leaf("p", "ok2", K{"k1", "x"}, K{"k2", "y"}, "v"),
			leaf("q", "ok3", K{"k1", "x"}, K{"k2", "y"}, K{"k3", "z"}, "v"),
		}},
		{Name: "mk5", Leaves: []Leaf{
			leaf("p2", "ok2", K{"k1", "x"}, K{"k2", "y"}, "v"),
			leaf("r", "ok2", K{"k1", "y"}, K{"k2", "x"}, "v"),
			leaf("s", "ok3", K{"k1", "x"}, K{"k2", "y"}, K{"k3", "zz"}, "v"),
		}},
		{Name: "mk3", Leaves: []Leaf{
			leaf("d", "dk", K{"zk", "z1"}, K{"ak", "a1"}, "v"),
			leaf("m", "dk", K{"zk", "z1"}, K{"ak", "a1"}, "m"),
		}},
	}
	m := map[string]*Fragment{}
	for _, f := range fs {
		m[f.Name] = f
	}
	return m
}

// Owners and the priorities each may use (sets are disjoint, so priorities stay pairwise distinct between owners).
var OwnerPrios = map[string][]int32{"A": {10, 25}, "B": {20}, "C": {30}}
var OwnerOrder = []string{"A", "B", "C"}

// CoreInitials are the initial running configurations R0, R1, R2.
func CoreInitials() []*Initial {
	return []*Initial{
		{Name: "R0"},
		{Name: "R1", Leaves: []Leaf{
			leaf("unmanaged", "sys", "mtu-ext"),
			leaf("legacy", "if", e2, "descr"),
			leafLL([]string{"t"}, "if", e1, "tags"),
			leaf("u", "ifx", K{"name", "e9"}, "descr"),
		}},
		{Name: "R2", Leaves: []Leaf{ // running already equals fragment fa, plus one unmanaged leaf
			leaf("r1", "sys", "hostname"),
			leaf("one", "if", e1, "descr"),
			leaf("1g", "if", e1, "speed"),
			leaf("old", "sys", "contact"),
		}},
	}
}

func single(is IntentSpec) Op { return Op{Intents: []IntentSpec{is}} }

// BuildAlphabet builds Set/Delete/OrphanDelete ops for every owner x allowed priority x fragment, plus the given multi-intent ops.
func BuildAlphabet(fragNames []string, multi []Op, withOrphan bool) []Op {
	var ops []Op
	// simplest first: deletes, then sets
	for _, o := range OwnerOrder {
		ops = append(ops, single(IntentSpec{Owner: o, Prio: OwnerPrios[o][0], Delete: true}))
	}
	for _, f := range fragNames {
		for _, o := range OwnerOrder {
			for _, p := range OwnerPrios[o] {
				ops = append(ops, single(IntentSpec{Owner: o, Prio: p, Frag: f}))
			}
		}
	}
	if withOrphan {
		for _, o := range OwnerOrder {
			ops = append(ops, single(IntentSpec{Owner: o, Prio: OwnerPrios[o][0], Delete: true, Orphan: true}))
		}
	}
	return append(ops, multi...)
}

// CoreMulti are the two-intent transactions of the core alphabet.
func CoreMulti() []Op {
	return []Op{
		{Intents: []IntentSpec{{Owner: "A", Prio: 10, Frag: "fa"}, {Owner: "B", Prio: 20, Frag: "fb"}}},
		{Intents: []IntentSpec{{Owner: "B", Prio: 20, Frag: "fc"}, {Owner: "C", Prio: 30, Frag: "fd"}}},
		{Intents: []IntentSpec{{Owner: "A", Prio: 10, Delete: true}, {Owner: "B", Prio: 20, Frag: "fa"}}},
		{Intents: []IntentSpec{{Owner: "B", Prio: 20, Frag: "fb"}, {Owner: "C", Prio: 30, Delete: true}}},
		{Intents: []IntentSpec{{Owner: "A", Prio: 25, Frag: "fb"}, {Owner: "C", Prio: 30, Frag: "fg"}}},
		{Intents: []IntentSpec{{Owner: "A", Prio: 10, Delete: true}, {Owner: "B", Prio: 20, Delete: true}}},
	}
}

var CoreFragOrder = []string{"fa", "fa1", "fb", "fc", "fd", "fp", "fe", "fg", "fh", "fm"}

// DeepFragOrder is the reduced alphabet used for one more level of depth.
var DeepFragOrder = []string{"fa", "fa1", "fb", "fd", "fp", "fm"}
var MultiKeyFragOrder = []string{"mk4", "mk5", "mk1", "mk2", "mk3"}

func mergeFrags(ms ...map[string]*Fragment) map[string]*Fragment {
	r := map[string]*Fragment{}
	for _, m := range ms {
		for k, v := range m {
			r[k] = v
		}
	}
	return r
}
