package h

import (
	"context"
	"encoding/json"
	"fmt"
	"sort"
	"sync"

	"github.com/beevik/etree"
	"github.com/sdcio/data-server/pkg/config"
	"github.com/sdcio/data-server/pkg/datastore/target"
	sdcpb "github.com/sdcio/sdc-protos/sdcpb"
)

// XMLOpt is one combination of the three NETCONF rendering options.
type XMLOpt struct{ HonorNS, OpWithNS, UseRemove bool }

// AllXMLOpts are the 8 combinations.
func AllXMLOpts() []XMLOpt {
	var r []XMLOpt
	for i := 0; i < 8; i++ {
		r = append(r, XMLOpt{i&1 != 0, i&2 != 0, i&4 != 0})
	}
	return r
}

// Rendering holds what a TargetSource produced in every encoding on one tree instance.
type Rendering struct {
	ProtoUpdates    []*sdcpb.Update // onlyNewOrUpdated = true
	ProtoUpdatesAll []*sdcpb.Update // onlyNewOrUpdated = false
	ProtoDeletes    []*sdcpb.Path
	JSON, JSONAll   any
	IETF, IETFAll   any
	XML             map[XMLOpt]string // onlyNewOrUpdated = true, serialised
	XMLAll          map[XMLOpt]string
	XMLDocs         map[XMLOpt]*etree.Document
	XMLDocsAll      map[XMLOpt]*etree.Document
	Errs            []string
}

// SetCall is one call of Target.Set as observed by the recording device.
type SetCall struct {
	Index   int
	Updates map[string]string // canonical path -> canonical value
	Deletes []string          // canonical delete paths
	DelPath []*sdcpb.Path
	Failed  bool
	R       *Rendering // only if RenderAll
}

// Device is a recording target.Target: it keeps the configuration a device would hold
// (previous configuration with the sent deletes and updates applied).
type Device struct {
	mu        sync.Mutex
	Cfg       map[string]string      // canonical path -> canonical value
	CfgPaths  map[string]*sdcpb.Path // canonical path -> path
	prePaths  map[string]*sdcpb.Path // every canonical path ever held (never shrinks)
	Calls     []*SetCall
	RenderAll bool
	FailCall  map[int]error // fail the k-th Set call (0-based) with this error
	SetHook   func(call int) // called at the start of each Set (scheduling seam)
	Log       *CallLog       // if set, Set calls take part in the world's global call numbering and fault plan
	SyncFeed  func(ctx context.Context, cfg *config.Sync, ch chan *target.SyncUpdate)
}

func NewDevice() *Device {
	return &Device{Cfg: map[string]string{}, CfgPaths: map[string]*sdcpb.Path{}, prePaths: map[string]*sdcpb.Path{}, FailCall: map[int]error{}}
}

// Preload sets the initial configuration of the device.
func (d *Device) Preload(p *sdcpb.Path, val string) {
	c := CanonPath(p)
	d.Cfg[c] = val
	d.CfgPaths[c] = p
	d.prePaths[c] = p
}

func (d *Device) Get(ctx context.Context, req *sdcpb.GetDataRequest) (*sdcpb.GetDataResponse, error) {
	return &sdcpb.GetDataResponse{}, nil
}

func (d *Device) Status() *target.TargetStatus {
	return target.NewTargetStatus(target.TargetStatusConnected)
}
func (d *Device) Close() error { return nil }

func (d *Device) Sync(ctx context.Context, syncConfig *config.Sync, syncCh chan *target.SyncUpdate) {
	if d.SyncFeed != nil {
		d.SyncFeed(ctx, syncConfig, syncCh)
	}
}

// Render calls every TargetSource view on the same instance.
func Render(ctx context.Context, source target.TargetSource, all bool) *Rendering {
	r := &Rendering{}
	var err error
	note := func(what string, err error) {
		if err != nil {
			r.Errs = append(r.Errs, what+": "+err.Error())
		}
	}
	r.ProtoUpdates, err = source.ToProtoUpdates(ctx, true)
	note("ToProtoUpdates(true)", err)
	r.ProtoDeletes, err = source.ToProtoDeletes(ctx)
	note("ToProtoDeletes", err)
	if !all {
		return r
	}
	r.ProtoUpdatesAll, err = source.ToProtoUpdates(ctx, false)
	note("ToProtoUpdates(false)", err)
	r.JSON, err = source.ToJson(true)
	note("ToJson(true)", err)
	r.JSONAll, err = source.ToJson(false)
	note("ToJson(false)", err)
	r.IETF, err = source.ToJsonIETF(true)
	note("ToJsonIETF(true)", err)
	r.IETFAll, err = source.ToJsonIETF(false)
	note("ToJsonIETF(false)", err)
	// normalise JSON through marshal/unmarshal so that interpreters see plain maps
	r.JSON, r.JSONAll, r.IETF, r.IETFAll = normJSON(r.JSON), normJSON(r.JSONAll), normJSON(r.IETF), normJSON(r.IETFAll)
	r.XML, r.XMLAll = map[XMLOpt]string{}, map[XMLOpt]string{}
	r.XMLDocs, r.XMLDocsAll = map[XMLOpt]*etree.Document{}, map[XMLOpt]*etree.Document{}
	for _, o := range AllXMLOpts() {
		for _, only := range []bool{true, false} {
			doc, err := source.ToXML(only, o.HonorNS, o.OpWithNS, o.UseRemove)
			note(fmt.Sprintf("ToXML(%t,%+v)", only, o), err)
			if err != nil || doc == nil {
				continue
			}
			s, err := doc.WriteToString()
			note("xml serialise", err)
			if only {
				r.XML[o], r.XMLDocs[o] = s, doc
			} else {
				r.XMLAll[o], r.XMLDocsAll[o] = s, doc
			}
		}
	}
	return r
}

func normJSON(v any) any {
	if v == nil {
		return nil
	}
	b, err := json.Marshal(v)
	if err != nil {
		return fmt.Sprintf("<marshal error %v>", err)
	}
	var out any
	dec := json.NewDecoder(bytesReader(b))
	dec.UseNumber()
	if err := dec.Decode(&out); err != nil {
		return fmt.Sprintf("<unmarshal error %v>", err)
	}
	return out
}

func (d *Device) Set(ctx context.Context, source target.TargetSource) (*sdcpb.SetDataResponse, error) {
	d.mu.Lock()
	idx := len(d.Calls)
	call := &SetCall{Index: idx, Updates: map[string]string{}}
	d.Calls = append(d.Calls, call)
	hook := d.SetHook
	d.mu.Unlock()
	if hook != nil {
		hook(idx)
	}
	if err, ok := d.FailCall[idx]; ok {
		call.Failed = true
		return nil, err
	}
	if d.Log != nil && d.Log.next("target.Set", "") {
		call.Failed = true
		return nil, ErrInjected
	}
	r := Render(ctx, source, d.RenderAll)
	if d.RenderAll {
		call.R = r
	}
	if len(r.Errs) > 0 {
		call.Failed = true
		return nil, fmt.Errorf("render: %v", r.Errs)
	}
	d.mu.Lock()
	defer d.mu.Unlock()
	// deletes first (gNMI SetRequest order: delete, replace, update)
	for _, del := range r.ProtoDeletes {
		call.Deletes = append(call.Deletes, CanonPath(del))
		call.DelPath = append(call.DelPath, del)
		for c, p := range d.CfgPaths {
			if PathHasPrefix(p, del) {
				delete(d.Cfg, c)
				delete(d.CfgPaths, c)
			}
		}
	}
	for _, u := range r.ProtoUpdates {
		c := CanonPath(u.GetPath())
		v := CanonTV(u.GetValue())
		call.Updates[c] = v
		d.Cfg[c] = v
		d.CfgPaths[c] = u.GetPath()
		d.prePaths[c] = u.GetPath()
	}
	sort.Strings(call.Deletes)
	return &sdcpb.SetDataResponse{}, nil
}

// Snapshot returns a copy of the device configuration.
func (d *Device) Snapshot() map[string]string {
	d.mu.Lock()
	defer d.mu.Unlock()
	r := make(map[string]string, len(d.Cfg))
	for k, v := range d.Cfg {
		r[k] = v
	}
	return r
}

// PathsEverHeld returns the structured path of every canonical path the device ever held.
func (d *Device) PathsEverHeld() map[string]*sdcpb.Path {
	d.mu.Lock()
	defer d.mu.Unlock()
	r := make(map[string]*sdcpb.Path, len(d.prePaths))
	for k, v := range d.prePaths {
		r[k] = v
	}
	return r
}

// NumCalls returns how many Set calls arrived so far.
func (d *Device) NumCalls() int {
	d.mu.Lock()
	defer d.mu.Unlock()
	return len(d.Calls)
}

var _ target.Target = (*Device)(nil)
