package h

import (
	"fmt"
	"sort"
	"strings"

	sdcpb "github.com/sdcio/sdc-protos/sdcpb"
)

// LiveIntent is the last accepted version of one intent in the reference model.
type LiveIntent struct {
	Prio    int32
	Frag    string
	Defined map[string]string // canonical path -> canonical value (key leaves included)
}

// Model is the boring reference model: a map of live intents plus the bookkeeping the C01 oracle needs.
type Model struct {
	Live     map[string]*LiveIntent
	Ever     map[string]bool   // paths that some accepted intent version has defined at some time
	DontCare map[string]bool   // paths left behind by an orphan delete and not redefined since
	Touched  map[string]bool   // canonical list-entry prefixes in which some intent has defined a value
	Initial  map[string]string // initial device configuration
}

func NewModel(initial map[string]string) *Model {
	return &Model{Live: map[string]*LiveIntent{}, Ever: map[string]bool{}, DontCare: map[string]bool{},
		Touched: map[string]bool{}, Initial: initial}
}

// ListEntryPrefixes returns the canonical prefixes of all list entries on the path.
func ListEntryPrefixes(p Path) []string {
	var r []string
	for i, e := range p {
		if len(e.Keys) > 0 {
			r = append(r, Path(p[:i+1]).String())
		}
	}
	return r
}

// Apply records an accepted, non-dry-run transaction.
func (m *Model) Apply(op Op, frags map[string]*Fragment) {
	for _, is := range op.Intents {
		switch {
		case is.Orphan:
			old := m.Live[is.Owner]
			delete(m.Live, is.Owner)
			if old != nil {
				for p := range old.Defined {
					if _, _, ok := m.Ruling(p); !ok {
						m.DontCare[p] = true
					}
				}
			}
		case is.Delete:
			delete(m.Live, is.Owner)
		default:
			f := frags[is.Frag]
			def := f.Defined()
			m.Live[is.Owner] = &LiveIntent{Prio: is.Prio, Frag: is.Frag, Defined: def}
			for p := range def {
				m.Ever[p] = true
				delete(m.DontCare, p)
			}
			for _, l := range f.Leaves {
				for _, pre := range ListEntryPrefixes(l.P) {
					m.Touched[pre] = true
				}
			}
		}
	}
}

// Ruling returns the value and owner of the live intent with the numerically lowest priority defining p.
func (m *Model) Ruling(p string) (val, owner string, ok bool) {
	best := int32(0)
	for o, li := range m.Live {
		v, def := li.Defined[p]
		if !def {
			continue
		}
		if !ok || li.Prio < best {
			val, owner, best, ok = v, o, li.Prio, true
		}
	}
	return
}

// Expected returns path -> ruling value over all live intents.
func (m *Model) Expected() map[string]string {
	r := map[string]string{}
	for _, li := range m.Live {
		for p := range li.Defined {
			if _, done := r[p]; done {
				continue
			}
			v, _, _ := m.Ruling(p)
			r[p] = v
		}
	}
	return r
}

// ExpectedIntended returns the set of IntendedEntry keys the intended store must hold.
func (m *Model) ExpectedIntended() map[string]bool {
	r := map[string]bool{}
	for o, li := range m.Live {
		for p, v := range li.Defined {
			r[IntendedEntry{Path: p, Owner: o, Prio: li.Prio, Val: v}.Key()] = true
		}
	}
	return r
}

// InTouchedEntry reports whether the canonical path lies inside a list entry in which some intent defined a value.
func (m *Model) InTouchedEntry(canon string) bool {
	for pre := range m.Touched {
		if canon == pre || strings.HasPrefix(canon, pre+"/") {
			return true
		}
	}
	return false
}

// Key canonicalises the model (part of the BFS state key: future verdicts depend on it).
func (m *Model) Key() string {
	var sb strings.Builder
	owners := make([]string, 0, len(m.Live))
	for o := range m.Live {
		owners = append(owners, o)
	}
	sort.Strings(owners)
	for _, o := range owners {
		fmt.Fprintf(&sb, "%s@%d=%s;", o, m.Live[o].Prio, m.Live[o].Frag)
	}
	sb.WriteString("|E:")
	sb.WriteString(setKey(m.Ever))
	sb.WriteString("|X:")
	sb.WriteString(setKey(m.DontCare))
	return sb.String()
}

func setKey(s map[string]bool) string {
	ks := make([]string, 0, len(s))
	for k := range s {
		ks = append(ks, k)
	}
	sort.Strings(ks)
	return strings.Join(ks, ",")
}

// Clone copies the model.
func (m *Model) Clone() *Model {
	c := NewModel(m.Initial)
	for o, li := range m.Live {
		c.Live[o] = li
	}
	for k := range m.Ever {
		c.Ever[k] = true
	}
	for k := range m.DontCare {
		c.DontCare[k] = true
	}
	for k := range m.Touched {
		c.Touched[k] = true
	}
	return c
}

// pathOf is a helper for messages.
func pathOf(p *sdcpb.Path) string { return CanonPath(p) }
