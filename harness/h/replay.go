package h

import (
	"encoding/json"
	"fmt"
	"os"
	"strings"
)

// `vcheck replay <file>`: re-executes the case recorded in a replay file against the code as it is now and says
// whether the violation reproduces (exit 1 + the signature) or not (exit 0).
//
//   E1 cases (initial, history, operation): replayed here on a fresh world with the property's checker.
//   E4 cases (scenario, choices): replayed by replaySched (instrumented builds only).
//   other engines: the case description is printed; the property's check is the replay (./run <id>).

type replayFile struct {
	Violation struct {
		Property string          `json:"property"`
		Clause   string          `json:"clause"`
		Sig      string          `json:"signature"`
		Detail   string          `json:"detail"`
		Engine   string          `json:"engine"`
		Case     json.RawMessage `json:"case"`
	} `json:"violation"`
}

// replaySchedFn is set by the scheduler build (tag verifsched).
var replaySchedFn func(prop, scenario string, choices []int) (outcome string, violations []string, err error)

func runReplay(args []string) int {
	if len(args) < 1 {
		fmt.Fprintln(os.Stderr, "usage: vcheck replay <file>")
		return 2
	}
	b, err := os.ReadFile(args[0])
	if err != nil {
		return fail(err)
	}
	var rf replayFile
	if err := json.Unmarshal(b, &rf); err != nil {
		return fail(err)
	}
	v := rf.Violation
	fmt.Printf("replaying %s (%s)\n  recorded signature: %s\n  recorded detail: %s\n", v.Property, v.Engine, v.Sig, firstLine(v.Detail))
	switch {
	case strings.HasPrefix(v.Engine, "E1"):
		return replayE1(v.Property, v.Sig, v.Case)
	case strings.HasPrefix(v.Engine, "E4"):
		var c struct {
			Scenario string `json:"scenario"`
			Choices  []int  `json:"choices"`
		}
		if err := json.Unmarshal(v.Case, &c); err != nil {
			return fail(err)
		}
		if replaySchedFn == nil {
			fmt.Println("this case needs the instrumented build: use ./run replay <file>")
			return 2
		}
		out, viol, err := replaySchedFn(v.Property, c.Scenario, c.Choices)
		if err != nil {
			return fail(err)
		}
		fmt.Printf("  scenario %q, %d recorded choices\n  outcome now: %s\n", c.Scenario, len(c.Choices), firstLine(out))
		if len(viol) == 0 {
			fmt.Println("NOT REPRODUCED: the schedule ends without a violation")
			return 0
		}
		for _, x := range viol {
			fmt.Printf("REPRODUCED: %s\n", firstLine(x))
		}
		return 1
	}
	fmt.Printf("  case: %s\nthe case of this engine is re-executed by the property's check: ./run %s\n", string(v.Case), v.Property)
	return 0
}

func replayE1(prop, sig string, raw json.RawMessage) int {
	var c struct {
		Initial string `json:"initial"`
		Hist    []Op   `json:"history_ops"`
		Op      Op     `json:"op_spec"`
		Probe   bool   `json:"probe"`
		Phase   string `json:"phase"`
	}
	if err := json.Unmarshal(raw, &c); err != nil {
		return fail(err)
	}
	_, cleanup, e, err := setupE1()
	if err != nil {
		return fail(err)
	}
	defer cleanup()
	rep := &Reporter{Property: prop, bySig: map[string][]*Violation{}}
	e.Rep = rep
	if hook := e1ReplayHooks[prop]; hook != nil {
		hook(e)
	} else if err := configureE1(prop, e); err != nil {
		return fail(err)
	}
	if c.Phase != "" {
		// the step belongs to an extra phase of the check: its checker, target and world options
		found := false
		if cfg := e1Configs[prop]; cfg != nil {
			for _, x := range cfg.extra {
				if x.name != c.Phase {
					continue
				}
				found = true
				e.Phase = x.name
				e.Checker = x.checker
				e.Opts.MakeTarget = x.makeTarget
				if x.opts != nil {
					x.opts(&e.Opts)
				}
				if x.initials != nil {
					e.Initials = append(e.Initials, x.initials()...)
				}
			}
		}
		if !found {
			return fail(fmt.Errorf("unknown phase %q of %s", c.Phase, prop))
		}
	}
	inits := append([]*Initial{}, e.Initials...)
	if cfg := e1Configs[prop]; cfg != nil && cfg.deep != nil && cfg.deep.initials != nil {
		inits = append(inits, cfg.deep.initials()...)
	}
	var init *Initial
	for _, i := range inits {
		if i.Name == c.Initial {
			init = i
		}
	}
	if init == nil {
		return fail(fmt.Errorf("unknown initial configuration %q", c.Initial))
	}
	for _, probe := range []bool{c.Probe, !c.Probe} {
		res := e.runTask(e.Cache, &node{init: init, hist: c.Hist}, c.Op, probe)
		if res.err != nil {
			return fail(res.err)
		}
		if len(rep.bySig) > 0 {
			break
		}
	}
	fmt.Printf("  initial %s, history %v, operation %s\n", c.Initial, opsStrings(c.Hist), c.Op)
	if len(rep.bySig) == 0 {
		fmt.Println("NOT REPRODUCED: the checker accepts this step now")
		return 0
	}
	same := false
	for s, vs := range rep.bySig {
		mark := "other violation"
		if s == sig {
			mark, same = "REPRODUCED", true
		}
		fmt.Printf("%s: %s\n    %s\n", mark, s, firstLine(vs[0].Detail))
	}
	if !same {
		fmt.Println("the recorded signature did not re-appear, but the step is still in violation")
	}
	return 1
}

// e1ReplayHooks configure the E1 of checks that drive the history search themselves (not through e1Configs).
var e1ReplayHooks = map[string]func(e *E1){}

func init() {
	Checks["replay"] = runReplay
}
