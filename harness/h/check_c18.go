package h

import (
	"errors"
	"fmt"
	"os"
	"strings"
	"sync"

	"github.com/beevik/etree"
	dconfig "github.com/sdcio/data-server/pkg/config"
	"github.com/sdcio/data-server/pkg/datastore/target"
	"github.com/sdcio/data-server/pkg/datastore/target/netconf"
	nctypes "github.com/sdcio/data-server/pkg/datastore/target/netconf/types"
)

// FakeNC is a netconf.Driver that models the candidate datastore and follows a fault plan.
type FakeNC struct {
	mu        sync.Mutex
	Armed     bool
	Plan      NCPlan
	Alive     bool
	Pending   []string // edit-configs applied to the candidate and neither committed nor discarded
	Committed [][]string
	Running   []string // edit-configs applied directly to running
	Log       []string // calls (while armed or not), e.g. "EditConfig(candidate)"
	ArmedLog  []string
	lastMode  string // behaviour of the last EditConfig (for the NETCONF server in front of the model)
}

func (f *FakeNC) lastEditMode() string {
	f.mu.Lock()
	defer f.mu.Unlock()
	return f.lastMode
}

// NCPlan says how each call behaves while the driver is armed.
type NCPlan struct {
	IsAlive string // "true" | "false"
	Edit    string // "ok" | "warn" | "err" | "eof" | "rpcerr" | "warn+err" (reply with a warning and an error rpc-error; scrapligo layer)
	Commit  string // "ok" | "err" | "eof"
	Discard string // "ok" | "err"
	Shape   string // scrapligo layer only: how <rpc-error> replies are written: "" plain, "prefixed" (nc:rpc-error, RFC compliant namespace prefix)
}

func (p NCPlan) String() string {
	if p.Shape != "" {
		return fmt.Sprintf("alive=%s,edit=%s,commit=%s,discard=%s,rpc-error=%s", p.IsAlive, p.Edit, p.Commit, p.Discard, p.Shape)
	}
	return fmt.Sprintf("alive=%s,edit=%s,commit=%s,discard=%s", p.IsAlive, p.Edit, p.Commit, p.Discard)
}

func (f *FakeNC) log(s string) {
	f.Log = append(f.Log, s)
	if f.Armed {
		f.ArmedLog = append(f.ArmedLog, s)
	}
}

func okDoc(extra string) *nctypes.NetconfResponse {
	d := etree.NewDocument()
	_ = d.ReadFromString("<rpc-reply><ok/>" + extra + "</rpc-reply>")
	return nctypes.NewNetconfResponse(d)
}

func (f *FakeNC) Get(filter string) (*nctypes.NetconfResponse, error) { return okDoc(""), nil }
func (f *FakeNC) GetConfig(source string, filter string) (*nctypes.NetconfResponse, error) {
	return okDoc(""), nil
}
func (f *FakeNC) Lock(t string) (*nctypes.NetconfResponse, error)     { return okDoc(""), nil }
func (f *FakeNC) Unlock(t string) (*nctypes.NetconfResponse, error)   { return okDoc(""), nil }
func (f *FakeNC) Validate(s string) (*nctypes.NetconfResponse, error) { return okDoc(""), nil }

func (f *FakeNC) IsAlive() bool {
	f.mu.Lock()
	defer f.mu.Unlock()
	f.log("IsAlive")
	if f.Armed && f.Plan.IsAlive == "false" {
		return false
	}
	return f.Alive
}

func (f *FakeNC) Close() error {
	f.mu.Lock()
	defer f.mu.Unlock()
	f.log("Close")
	f.Alive = false
	return nil
}

func (f *FakeNC) EditConfig(tgt string, config string) (*nctypes.NetconfResponse, error) {
	f.mu.Lock()
	defer f.mu.Unlock()
	f.log("EditConfig(" + tgt + ")")
	mode := "ok"
	if f.Armed {
		mode = f.Plan.Edit
	}
	f.lastMode = mode
	if mode == "eof" {
		f.Alive = false
		return nil, errors.New("read error: EOF")
	}
	// pessimistic: a failing edit-config may have been applied partly
	if tgt == "candidate" {
		f.Pending = append(f.Pending, config)
	} else {
		f.Running = append(f.Running, config)
	}
	switch mode {
	case "err", "warn+err":
		return nil, errors.New("verif: edit-config transport error")
	case "rpcerr":
		// the way the production scrapligo adapter surfaces an <rpc-error> reply: a non-nil error
		return nil, errors.New("operation failed: <rpc-error><error-severity>error</error-severity><error-message>bad value</error-message></rpc-error>")
	case "warn":
		return okDoc("<rpc-error><error-severity>warning</error-severity><error-message>deprecated</error-message></rpc-error>"), nil
	}
	return okDoc(""), nil
}

func (f *FakeNC) Commit() error {
	f.mu.Lock()
	defer f.mu.Unlock()
	f.log("Commit")
	mode := "ok"
	if f.Armed {
		mode = f.Plan.Commit
	}
	switch mode {
	case "err":
		return errors.New("verif: commit failed")
	case "eof":
		f.Alive = false
		return errors.New("read error: EOF")
	}
	f.Committed = append(f.Committed, f.Pending)
	f.Pending = nil
	return nil
}

func (f *FakeNC) Discard() error {
	f.mu.Lock()
	defer f.mu.Unlock()
	f.log("Discard")
	if f.Armed && f.Plan.Discard == "err" {
		return errors.New("verif: discard failed")
	}
	f.Pending = nil
	return nil
}

var _ netconf.Driver = (*FakeNC)(nil)

// c18Scenario is a history that leaves a datastore in a state, and the transaction under test.
type c18Scenario struct {
	Name   string
	Setup  []Op
	Test   Op
	Follow Op
	Empty  bool // the transaction under test produces no change
}

func c18Scenarios() []c18Scenario {
	A := func(f string) Op { return single(IntentSpec{Owner: "A", Prio: 10, Frag: f}) }
	B := func(f string) Op { return single(IntentSpec{Owner: "B", Prio: 20, Frag: f}) }
	follow := B("fd")
	return []c18Scenario{
		{Name: "empty", Setup: []Op{A("fa")}, Test: A("fa"), Follow: follow, Empty: true},
		{Name: "update-only", Setup: nil, Test: A("fa"), Follow: follow},
		{Name: "delete-only", Setup: []Op{A("fa")}, Test: single(IntentSpec{Owner: "A", Prio: 10, Delete: true}), Follow: follow},
		{Name: "mixed", Setup: []Op{A("fc")}, Test: A("fb"), Follow: follow},
		{Name: "replace", Setup: []Op{A("fa")}, Test: Op{Replace: &IntentSpec{Owner: "replace", Frag: "fb"}}, Follow: follow},
		{Name: "multi-module", Setup: []Op{A("fh")}, Test: A("fg"), Follow: follow},
		// the change document starts with a bare element (<mode operation="delete"/>) followed by an update
		{Name: "bare-delete-first", Setup: []Op{A("c18a")}, Test: A("c18b"), Follow: follow},
		// a configured value spells "EOF": an rpc-error reply that quotes the request must not be taken for a dead connection
		{Name: "eof-in-payload", Setup: nil, Test: A("c18e"), Follow: follow},
	}
}

func runC18() int {
	u, err := LoadUniverse()
	if err != nil {
		return fail(err)
	}
	rep := NewReporter("C18", "fault_enumeration")
	rep.Assumptions = []string{
		"the netconf.Driver is a fake that models the candidate datastore pessimistically (an edit-config that fails may have been applied partly); rpc-error replies are surfaced as errors the way the scrapligo adapter does",
		"change documents come from real trees of the universe schema, built by the real transaction pipeline over the real cache",
		"after an EOF / dead connection nothing can be demanded of the candidate (no call is possible); those runs only check that nothing is committed and no panic occurs",
	}
	type job struct {
		sc    c18Scenario
		ds    string
		opt   XMLOpt
		plan  NCPlan
		layer string // "driver": the model is the netconf.Driver; "scrapligo": real scrapligo driver + production adapter over an in-memory NETCONF server in front of the model
	}
	var jobs []job
	for _, sc := range c18Scenarios() {
		for _, ds := range []string{"candidate", "running"} {
			for _, opt := range AllXMLOpts() {
				for _, al := range []string{"true", "false"} {
					for _, ed := range []string{"ok", "warn", "err", "eof", "rpcerr"} {
						for _, co := range []string{"ok", "err", "eof"} {
							for _, di := range []string{"ok", "err"} {
								if ds == "running" && (co != "ok" || di != "ok") {
									continue // commit/discard are never reached for direct-to-running targets
								}
								jobs = append(jobs, job{sc, ds, opt, NCPlan{IsAlive: al, Edit: ed, Commit: co, Discard: di}, "driver"})
								if (opt == XMLOpt{} || opt == XMLOpt{true, true, true}) {
									jobs = append(jobs, job{sc, ds, opt, NCPlan{IsAlive: al, Edit: ed, Commit: co, Discard: di}, "scrapligo"})
									if ed == "rpcerr" {
										jobs = append(jobs, job{sc, ds, opt, NCPlan{IsAlive: al, Edit: "warn+err", Commit: co, Discard: di}, "scrapligo"})
									}
									if ed == "rpcerr" || co == "err" || di == "err" {
										jobs = append(jobs, job{sc, ds, opt, NCPlan{IsAlive: al, Edit: ed, Commit: co, Discard: di, Shape: "prefixed"}, "scrapligo"})
									}
								}
							}
						}
					}
				}
			}
		}
	}
	var mu sync.Mutex
	evals := 0
	distinct := map[string]bool{}
	var samples []any
	frags := CoreFragments()
	frags["c18a"] = &Fragment{Name: "c18a", Leaves: []Leaf{leaf("A1", "mode", "a"), leaf("r1", "sys", "hostname")}}
	frags["c18e"] = &Fragment{Name: "c18e", Leaves: []Leaf{leaf("uplink EOF", "if", e1, "descr")}}
	frags["c18b"] = &Fragment{Name: "c18b", Leaves: []Leaf{leaf("r9", "sys", "hostname")}}
	ch := make(chan job, 64)
	var wg sync.WaitGroup
	for i := 0; i < 16; i++ {
		wg.Add(1)
		go func() {
			defer wg.Done()
			wc := NewWorkerCache()
			defer wc.Close()
			for j := range ch {
				cc, err := wc.Get()
				if err != nil {
					fmt.Fprintln(os.Stderr, err)
					continue
				}
				fake := &FakeNC{Alive: true, Plan: j.plan}
				sbi := &dconfig.SBI{Type: "netconf", Address: "127.0.0.1", Port: 1, ConnectRetry: 3600e9,
					NetconfOptions: &dconfig.SBINetconfOptions{IncludeNS: j.opt.HonorNS, OperationWithNamespace: j.opt.OpWithNS, UseOperationRemove: j.opt.UseRemove, CommitDatastore: j.ds}}
				var drv netconf.Driver = fake
				if j.layer == "scrapligo" {
					d, sd, err := newScrapligoDriver(fake)
					if err != nil {
						rep.Add(&Violation{Clause: "harness", Sig: "scrapligo-open-failed", Detail: err.Error(), Engine: "E2-faults"})
						continue
					}
					drv = d
					defer func() { go sd.Close() }() // Close may wait for a reader that is already gone
				}
				w, err := NewWorld(u, cc, nil, WorldOpts{Fragments: frags, MakeTarget: func(w *World) target.Target {
					return target.NewNCTargetForVerif(w.Name, sbi, w.DS.VerifSchemaClient(), drv)
				}})
				if err != nil {
					fmt.Fprintln(os.Stderr, err)
					continue
				}
				setupOK := true
				for _, op := range j.sc.Setup {
					if out := w.Apply(op); out.Rejected() {
						setupOK = false
					}
				}
				if !setupOK {
					rep.Add(&Violation{Clause: "harness", Sig: "setup-rejected:" + j.sc.Name, Detail: "fault-free setup transaction rejected through the NETCONF target", Engine: "E2-faults"})
					w.Close()
					continue
				}
				fake.mu.Lock()
				fake.Armed = true
				fake.ArmedLog = nil
				pendingBefore := len(fake.Pending)
				committedBefore := len(fake.Committed)
				fake.mu.Unlock()
				out := w.Apply(j.sc.Test)
				fake.mu.Lock()
				fake.Armed = false
				calls := []string{}
				for _, c := range fake.ArmedLog {
					if c != "IsAlive" {
						calls = append(calls, c)
					}
				}
				pendingAfter := len(fake.Pending)
				committedNow := len(fake.Committed) - committedBefore
				alive := fake.Alive
				fake.mu.Unlock()
				callStr := strings.Join(calls, ",")
				cas := map[string]any{"scenario": j.sc.Name, "layer": j.layer, "commit_datastore": j.ds, "xml_options": fmt.Sprintf("%+v", j.opt), "plan": j.plan.String(), "calls": calls, "set_error": fmt.Sprint(out.Err)}
				add := func(clause, detail string) {
					lt := ""
					if j.layer != "driver" {
						lt = ":" + j.layer
					}
					rep.Add(&Violation{Clause: clause, Sig: fmt.Sprintf("%s:%s:%s:%s%s", clause, j.sc.Name, j.ds, j.plan, lt), Detail: detail + fmt.Sprintf(" (calls=%v, err=%v)", calls, out.Err), Case: cas, Engine: "E2-faults"})
				}
				if out.Panic != "" {
					add("panic", "Set panicked: "+out.Panic)
				}
				success := out.Err == nil && out.ConvErr == nil && !out.HasIntentErrors && out.Panic == ""
				dead := !alive || j.plan.IsAlive == "false"
				// a failing edit-config or commit must surface as an error of the Set
				if success && !j.sc.Empty && !dead {
					editFailed := strings.Contains(callStr, "EditConfig") && (j.plan.Edit == "err" || j.plan.Edit == "rpcerr" || j.plan.Edit == "warn+err")
					commitFailed := strings.Contains(callStr, "Commit") && j.plan.Commit == "err"
					if editFailed || commitFailed {
						add("failure-reported-as-success", fmt.Sprintf("the device answered edit-config/commit with a failure (edit=%s commit=%s) but the Set returned success", j.plan.Edit, j.plan.Commit))
					}
				}
				switch {
				case j.sc.Empty:
					if len(calls) > 0 {
						add("empty-change-sent", "a transaction without any change reached the driver")
					}
				case success:
					want := "EditConfig(candidate),Commit"
					if j.ds == "running" {
						want = "EditConfig(running)"
					}
					if callStr != want {
						add("success-call-sequence", "successful Set must perform exactly ["+want+"]")
					}
					if j.ds == "candidate" && (pendingAfter != 0 || committedNow != 1) {
						add("success-not-committed-once", fmt.Sprintf("after a successful Set the candidate holds %d uncommitted edits and %d commits happened", pendingAfter, committedNow))
					}
				default: // error returned
					if j.ds == "candidate" && !dead {
						edits := strings.Count(callStr, "EditConfig(candidate)")
						if edits > 0 {
							// a discard must have been attempted after the last edit-config / failed commit
							lastEdit := strings.LastIndex(callStr, "EditConfig(candidate)")
							if !strings.Contains(callStr[lastEdit:], "Discard") {
								add("no-discard-after-failure", "Set returned an error after an edit-config on the candidate without discarding it")
							} else if j.plan.Discard == "ok" && pendingAfter != pendingBefore {
								add("candidate-dirty-after-failure", fmt.Sprintf("candidate still holds %d uncommitted edit(s) when the error is returned", pendingAfter))
							}
						}
					}
					if committedNow > 0 && j.plan.Commit != "ok" {
						add("commit-on-failure", "a commit went through although the plan makes commit fail")
					}
				}
				// a following, fault-free Set never commits leftovers
				discardFailedByPlan := j.plan.Discard == "err" && strings.Contains(callStr, "Discard")
				if !dead && j.ds == "candidate" && !discardFailedByPlan {
					fake.mu.Lock()
					cb := len(fake.Committed)
					fake.mu.Unlock()
					out2 := w.Apply(j.sc.Follow)
					fake.mu.Lock()
					if len(fake.Committed) > cb {
						last := fake.Committed[len(fake.Committed)-1]
						if len(last) != 1 {
							fake.mu.Unlock()
							add("leftover-committed", fmt.Sprintf("the next successful transaction committed %d edit-configs at once: leftovers of the failed one were committed", len(last)))
							fake.mu.Lock()
						}
					} else if out2.Err == nil && !out2.Rejected() {
						fake.mu.Unlock()
						add("follow-up-not-committed", "follow-up transaction reported success but nothing was committed")
						fake.mu.Lock()
					}
					fake.mu.Unlock()
				}
				w.Close()
				mu.Lock()
				evals++
				distinct[fmt.Sprintf("%s|%s|%s|%s|%s|ok=%v", j.layer, j.sc.Name, j.ds, j.plan, callStr, success)] = true
				if len(samples) < 8 && j.plan.Edit != "ok" {
					samples = append(samples, cas)
				}
				mu.Unlock()
			}
		}()
	}
	for _, j := range jobs {
		ch <- j
	}
	close(ch)
	wg.Wait()
	return rep.Finish(map[string]any{
		"evaluations":         evals,
		"distinct_nontrivial": len(distinct),
		"rule":                "full cross product: 7 change-document scenarios (empty, update-only, delete-only, mixed, replace, multi-module, bare-delete-first) x commit-datastore {candidate,running} x 8 XML option combinations x every assignment of behaviours to the driver calls IsAlive{true,false} EditConfig{ok,warnings,error,EOF,rpc-error} Commit{ok,error,EOF} Discard{ok,error}; a case is distinct by (scenario, datastore, plan, observed call sequence, outcome)",
		"samples":             samples,
		"fault_points":        []string{"IsAlive", "EditConfig", "Commit", "Discard"},
		"exhaustive":          true,
	})
}

func init() {
	Checks["C18"] = func([]string) int { return runC18() }
}
