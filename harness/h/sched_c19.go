//go:build verifsched

package h

import (
	"context"
	"errors"
	"fmt"
	"strings"
	"time"

	"github.com/sdcio/cache/pkg/cache"
	"github.com/sdcio/cache/proto/cachepb"
	dcache "github.com/sdcio/data-server/pkg/cache"
	dconfig "github.com/sdcio/data-server/pkg/config"
	"github.com/sdcio/data-server/pkg/datastore"
	"github.com/sdcio/data-server/pkg/server"
	"github.com/sdcio/data-server/pkg/utils"
	"github.com/sdcio/data-server/pkg/verifrt"
	sdcpb "github.com/sdcio/sdc-protos/sdcpb"
	"google.golang.org/protobuf/proto"
)

// C19: streaming RPCs end when their client does.

// memCache is a synchronous in-memory cache.Client: reads return pre-filled, closed channels, so that the
// controlled scheduler owns every source of nondeterminism of the handlers under test.
type memCache struct {
	leaves []*dcache.Update
}

func (m *memCache) add(u *Universe, l Leaf) {
	_, b, err := u.typed(l)
	if err != nil {
		panic(err)
	}
	m.leaves = append(m.leaves, dcache.NewUpdate(utils.ToStrings(l.P.Sdcpb(), false, false), b, 0, "", 0))
}

func (m *memCache) match(paths [][]string) []*dcache.Update {
	var res []*dcache.Update
	for _, u := range m.leaves {
		for _, p := range paths {
			if len(p) <= len(u.GetPath()) && strings.Join(u.GetPath()[:len(p)], "\x00") == strings.Join(p, "\x00") {
				res = append(res, u)
				break
			}
		}
	}
	return res
}

func (m *memCache) Create(ctx context.Context, name string, _ bool, _ bool) error { return nil }
func (m *memCache) List(ctx context.Context) ([]string, error)                    { return nil, nil }
func (m *memCache) Delete(ctx context.Context, name string) error                 { return nil }
func (m *memCache) Exists(ctx context.Context, name string) (bool, error)         { return true, nil }
func (m *memCache) CreateCandidate(ctx context.Context, name, candidate, owner string, priority int32) error {
	return nil
}
func (m *memCache) GetCandidates(ctx context.Context, name string) ([]*cache.CandidateDetails, error) {
	return nil, nil
}
func (m *memCache) HasCandidate(ctx context.Context, name, candidate string) (bool, error) {
	return false, nil
}
func (m *memCache) DeleteCandidate(ctx context.Context, name, candidate string) error { return nil }
func (m *memCache) Clone(ctx context.Context, name, clone string) error               { return nil }
func (m *memCache) CreatePruneID(ctx context.Context, name string, force bool) (string, error) {
	return "p", nil
}
func (m *memCache) ApplyPrune(ctx context.Context, name, id string) error { return nil }
func (m *memCache) Modify(ctx context.Context, name string, opts *dcache.Opts, dels [][]string, upds []*dcache.Update) error {
	return nil
}
func (m *memCache) Read(ctx context.Context, name string, opts *dcache.Opts, paths [][]string, period time.Duration) []*dcache.Update {
	if opts != nil && opts.Store != cachepb.Store_CONFIG {
		return nil
	}
	return m.match(paths)
}
func (m *memCache) ReadCh(ctx context.Context, name string, opts *dcache.Opts, paths [][]string, period time.Duration) chan *dcache.Update {
	var res []*dcache.Update
	if opts == nil || opts.Store == cachepb.Store_CONFIG {
		res = m.match(paths)
	}
	ch := make(chan *dcache.Update, len(res))
	for _, u := range res {
		ch <- u
	}
	close(ch)
	return ch
}
func (m *memCache) GetChanges(ctx context.Context, name, candidate string) ([]*dcache.Change, error) {
	return nil, nil
}
func (m *memCache) Discard(ctx context.Context, name, candidate string) error { return nil }
func (m *memCache) Commit(ctx context.Context, name, candidate string) error  { return nil }
func (m *memCache) NewUpdate(upd *sdcpb.Update) (*dcache.Update, error) {
	b, err := proto.Marshal(upd.Value)
	if err != nil {
		return nil, err
	}
	return dcache.NewUpdate(utils.ToStrings(upd.GetPath(), false, false), b, 0, "", 0), nil
}
func (m *memCache) GetKeys(ctx context.Context, name string, store cachepb.Store) (chan *dcache.Update, error) {
	ch := make(chan *dcache.Update, len(m.leaves))
	if store == cachepb.Store_CONFIG {
		for _, u := range m.leaves {
			ch <- u
		}
	}
	close(ch)
	return ch, nil
}
func (m *memCache) Close() error { return nil }

var _ dcache.Client = (*memCache)(nil)

// ctlStream is the controllable server stream: every Send is a scheduling point; the environment can make
// the next Send fail, stall the consumer, or cancel the client.
type ctlStream struct {
	fakeServerStream
	ctx      context.Context
	cancel   context.CancelFunc
	sent     int
	failNext bool
	failed   bool
	failEOF  bool
	stalled  bool
	// set when the client went away; doneAtCancel records whether the handler had already returned
	cancelled    bool
	doneAtCancel bool
	handlerDone  *bool
}

func (s *ctlStream) Context() context.Context { return s.ctx }

func (s *ctlStream) send() error {
	verifrt.YieldPoint("stream.Send")
	if s.stalled {
		// a consumer that stopped reading: the transport blocks until the client goes away
		verifrt.Select(false, verifrt.CaseRecv(s.ctx.Done()))
		return s.ctx.Err()
	}
	if s.ctx.Err() != nil {
		return s.ctx.Err()
	}
	if s.failNext || s.failed {
		// a failed stream stays failed
		s.failNext = false
		s.failed = true
		if s.failEOF {
			return errors.New("EOF")
		}
		return errors.New("rpc error: code = Unavailable desc = transport is closing")
	}
	s.sent++
	return nil
}

type subStream struct{ *ctlStream }

func (s subStream) Send(*sdcpb.SubscribeResponse) error { return s.send() }

type getStream struct{ *ctlStream }

func (s getStream) Send(*sdcpb.GetDataResponse) error { return s.send() }

type devWatchStream struct{ *ctlStream }

func (s devWatchStream) Send(*sdcpb.WatchDeviationResponse) error { return s.send() }

func newCtlStream(stalled bool) *ctlStream {
	ctx, cancel := context.WithCancel(peerCtx())
	return &ctlStream{ctx: ctx, cancel: cancel, stalled: stalled}
}

func (s *ctlStream) envs() []*verifrt.EnvEvent {
	return []*verifrt.EnvEvent{
		{Name: "client-cancels", Enabled: func() bool { return !s.cancelled }, Fire: func() {
			s.cancelled = true
			s.doneAtCancel = s.handlerDone != nil && *s.handlerDone
			s.cancel()
		}},
		{Name: "next-send-fails", Enabled: func() bool { return !s.failNext && !s.failed && !s.cancelled && !s.stalled }, Fire: func() { s.failNext = true }},
		// the same with the error text of a closed stream ("EOF"), which the handlers treat differently
		{Name: "next-send-fails-eof", Enabled: func() bool { return !s.failNext && !s.failed && !s.cancelled && !s.stalled }, Fire: func() { s.failNext, s.failEOF = true, true }},
	}
}

// cancelAtRest reports whether the client's cancellation was delivered at a point where no thread could move
// (the explorer's default continuation: the environment only acts when the system is at rest).
func cancelAtRest(res *verifrt.Result) bool {
	for _, p := range res.Points {
		if p.Chosen < len(p.Enabled) && p.Enabled[p.Chosen].Thread < 0 && p.Enabled[p.Chosen].Env == "client-cancels" {
			for _, c := range p.Enabled {
				if c.Thread >= 0 {
					return false
				}
			}
			return true
		}
	}
	return false
}

func newServerWith(name string, ds *datastore.Datastore) *server.Server {
	s := server.NewForVerif(&dconfig.Config{DefaultTransactionTimeout: time.Hour})
	s.VerifAddDatastore(name, ds)
	return s
}

func c19Datastore(u *Universe, leaves int) (*datastore.Datastore, *memCache) {
	mc := &memCache{}
	all := []Leaf{leaf("h", "sys", "hostname"), leaf("d", "if", e1, "descr")}
	for i := 0; i < leaves && i < len(all); i++ {
		mc.add(u, all[i])
	}
	cfg := &dconfig.DatastoreConfig{Name: "ds", Schema: u.SchemaCfg, SBI: &dconfig.SBI{Type: "noop"}, Validation: &dconfig.Validation{}}
	return datastore.NewForVerif(cfg, u.Client, mc, NewDevice()), mc
}

// selfEnding: the handler has to return without the client's help once its data is exhausted (GetData with a
// reading consumer); every handler has to return by itself after the stream failed.
func c19Finish(name string, st *ctlStream, handlerDone *bool, handlerErr *error, selfEnding bool) func(res *verifrt.Result) (string, []string) {
	st.handlerDone = handlerDone
	return func(res *verifrt.Result) (string, []string) {
		viol := resultProblems(res)
		if res.Horizon {
			viol = append(viol, "livelock: the handler did not come to rest within the step horizon")
		}
		if res.Panic == "" && !res.Deadlock && !res.Horizon {
			if !*handlerDone {
				viol = append(viol, "handler-not-returned: the RPC handler did not return although its client is gone")
			}
			if len(res.Unfinished) > 0 {
				viol = append(viol, "goroutines-left: "+strings.Join(res.Unfinished, "; "))
			}
			if st.cancelled && !st.doneAtCancel && cancelAtRest(res) {
				if st.failed {
					viol = append(viol, "waits-after-stream-failure: the stream had failed and nothing could move, yet the handler only returned when the client context was cancelled")
				} else if selfEnding {
					viol = append(viol, "waits-after-data-exhausted: all data was delivered and nothing could move, yet the handler only returned when the client context was cancelled")
				}
			}
		}
		out := fmt.Sprintf("returned=%v sent=%d failed=%v deadlock=%v panic=%v", *handlerDone, st.sent, st.failed, res.Deadlock, res.Panic != "")
		return out, viol
	}
}

func c19Scenarios(u *Universe) []schedScenario {
	var scs []schedScenario
	maxSubs := 3
	if Tier() == "thorough" {
		maxSubs = 4
	}
	// Datastore.Subscribe
	for subs := 1; subs <= maxSubs; subs++ {
		for leaves := 0; leaves <= 2; leaves++ {
			for _, stalled := range []bool{false, true} {
				if stalled && (leaves == 0 || subs > 2) {
					continue
				}
				subs, leaves, stalled := subs, leaves, stalled
				name := fmt.Sprintf("Subscribe subs=%d leaves=%d stalled=%v", subs, leaves, stalled)
				scs = append(scs, schedScenario{name, func() ([]*verifrt.EnvEvent, func(), func(*verifrt.Result) (string, []string)) {
					ds, _ := c19Datastore(u, leaves)
					st := newCtlStream(stalled)
					done := false
					var herr error
					main := func() {
						req := &sdcpb.SubscribeRequest{Name: "ds"}
						for i := 0; i < subs; i++ {
							p := []*sdcpb.Path{P("sys").Sdcpb()}
							if i%2 == 1 {
								p = []*sdcpb.Path{P("if").Sdcpb()}
							}
							req.Subscription = append(req.Subscription, &sdcpb.Subscription{Path: p, SampleInterval: uint64(time.Second), DataType: sdcpb.DataType_CONFIG})
						}
						herr = ds.Subscribe(req, subStream{st})
						done = true
					}
					return st.envs(), main, c19Finish(name, st, &done, &herr, false)
				}})
			}
		}
	}
	// Server.GetData -> Datastore.Get
	for _, enc := range []sdcpb.Encoding{sdcpb.Encoding_STRING, sdcpb.Encoding_PROTO, sdcpb.Encoding_JSON, sdcpb.Encoding_JSON_IETF} {
		for paths := 1; paths <= 3; paths++ {
			for _, stalled := range []bool{false, true} {
				if paths > 1 && enc != sdcpb.Encoding_STRING && Tier() != "thorough" {
					continue
				}
				enc, paths, stalled := enc, paths, stalled
				name := fmt.Sprintf("GetData enc=%s paths=%d stalled=%v", enc, paths, stalled)
				scs = append(scs, schedScenario{name, func() ([]*verifrt.EnvEvent, func(), func(*verifrt.Result) (string, []string)) {
					ds, _ := c19Datastore(u, 2)
					srv := newServerWith("ds", ds)
					st := newCtlStream(stalled)
					done := false
					var herr error
					main := func() {
						all := []*sdcpb.Path{P("sys").Sdcpb(), P("if").Sdcpb(), P("sys", "hostname").Sdcpb()}
						herr = srv.GetData(&sdcpb.GetDataRequest{Name: "ds", Path: all[:paths], Encoding: enc, DataType: sdcpb.DataType_CONFIG, Datastore: &sdcpb.DataStore{Type: sdcpb.Type_MAIN}}, getStream{st})
						done = true
					}
					return st.envs(), main, c19Finish(name, st, &done, &herr, !stalled)
				}})
			}
		}
	}
	// Server.WatchDeviations
	scs = append(scs, schedScenario{"WatchDeviations", func() ([]*verifrt.EnvEvent, func(), func(*verifrt.Result) (string, []string)) {
		ds, _ := c19Datastore(u, 1)
		srv := newServerWith("ds", ds)
		st := newCtlStream(false)
		done := false
		var herr error
		main := func() {
			herr = srv.WatchDeviations(&sdcpb.WatchDeviationRequest{Name: []string{"ds"}}, devWatchStream{st})
			done = true
		}
		return st.envs(), main, c19Finish("WatchDeviations", st, &done, &herr, false)
	}})
	return scs
}

func runC19() int {
	u, err := LoadUniverse()
	if err != nil {
		return fail(err)
	}
	rep := NewReporter("C19", "model_checking")
	rep.Assumptions = []string{
		"pkg/datastore and pkg/server are rebuilt from the working tree by the instrumenter; the handlers run under the cooperative scheduler with a synchronous in-memory cache.Client (reads return pre-filled closed channels) and a controllable stream whose Send is a scheduling point",
		"environment events: client cancellation, failure of the next Send, every tick of every ticker; a stalled consumer is a Send that blocks until the client is gone; gRPC's own flow control is represented by the Send seam only",
	}
	pb, db := 1, 2
	if Tier() == "thorough" {
		pb, db = 2, 3
	}
	sigOf := func(scn, v string, x *verifrt.Execution) string {
		clause := strings.SplitN(v, ":", 2)[0]
		if clause == "panic" {
			clause = strings.Join(strings.SplitN(v, ":", 3)[:2], "@")
		}
		fam := strings.SplitN(scn, " ", 2)[0]
		return clause + ":" + fam + ":" + scn
	}
	shardByBranch = true // a few scenarios (GetData with three paths) dominate: split every exploration tree
	tot, code := exploreSharded(rep, "C19", c19Scenarios(u), pb, db, 4000, deadlineFor(6*time.Minute, 45*time.Minute), sigOf)
	if code != 0 {
		return code
	}
	return rep.Finish(tot.coverage(nil))
}

func init() {
	Checks["C19"] = func([]string) int { return runC19() }
}
