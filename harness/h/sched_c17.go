//go:build verifsched

package h

import (
	"fmt"
	"os"
	"sort"
	"strings"
	"time"

	"github.com/sdcio/cache/proto/cachepb"
	dconfig "github.com/sdcio/data-server/pkg/config"
	"github.com/sdcio/data-server/pkg/verifrt"
)

// C17: validation verdicts do not depend on scheduling.
//
// pkg/tree, pkg/types and the bound schema client are compiled from instrumented sources (bin/vcheck-t): the
// goroutine per child of sharedEntryAttributes.Validate, the result channel, every childMap / LeafVariants /
// LeafEntry / cache / schema lock operation is a scheduling point. The transaction under test runs through the
// real Datastore.TransactionSet; all interleavings of its validators within the preemption bound are executed
// and each must produce the verdict of the sequential run (DisableConcurrency). The runtime's happens-before
// race detector (vector clocks over the modelled synchronisation) reports unsynchronised conflicting accesses
// to tree state in every explored execution.

type c17Scenario struct {
	Name    string
	Running []Leaf
	Setup   []Op
	Test    Op
}

func c17Scenarios() []c17Scenario {
	A := func(f string) IntentSpec { return IntentSpec{Owner: "A", Prio: 10, Frag: f} }
	B := func(f string) IntentSpec { return IntentSpec{Owner: "B", Prio: 20, Frag: f} }
	C := func(f string) IntentSpec { return IntentSpec{Owner: "C", Prio: 30, Frag: f} }
	one := func(i ...IntentSpec) Op { return Op{Intents: i} }
	run1 := []Leaf{leaf("e1", "if", e1, "name"), leaf("run", "if", e1, "descr")}
	run2 := append(append([]Leaf{}, run1...), leaf("e2", "if", e2, "name"), leaf("900", "sys", "mtu"))
	scs := []c17Scenario{
		// must across branches with a default loaded on demand (sys/mtu default 1500), leafref into a sibling branch
		{Name: "must-default+leafref-ok", Running: run1, Test: one(A("c17a"))},
		// the same with a running mtu below the must threshold and a dangling leafref: errors and a warning
		{Name: "must-fails+leafref-missing+warning", Running: run2, Test: one(A("c17b"))},
		// leafref resolved only through the running config (lazy load of running values while siblings are validated)
		{Name: "leafref-into-running", Running: run2, Test: one(A("c17c"))},
		// two intents in one transaction, one of them invalid in three classes
		{Name: "two-intents-pattern-range-minmax", Running: run1, Test: one(A("c17d"), B("c17e"))},
		// removal of an intent that another intent's leafref depends on
		{Name: "delete-referenced", Running: nil, Setup: []Op{one(A("vif")), one(B("vup"))}, Test: one(IntentSpec{Owner: "A", Prio: 10, Delete: true})},
		// mandatory + list keys + nested leafref
		{Name: "mandatory-missing+unit-peer", Running: run2, Test: one(A("c17f"), C("vmv"))},
	}
	if Tier() == "thorough" {
		scs = append(scs,
			c17Scenario{Name: "shadowed-invalid", Running: run1, Setup: []Op{one(A("vm9"))}, Test: one(C("vm5"), B("vg"))},
			c17Scenario{Name: "three-intents", Running: run2, Test: one(A("c17a"), B("c17c"), C("c17e"))},
		)
	}
	return scs
}

func c17Fragments() map[string]*Fragment {
	fr := ValidityFragments()
	add := func(name string, ls ...Leaf) { fr[name] = &Fragment{Name: name, Leaves: ls} }
	add("c17a", leaf("g", "refs", "guard"), leaf("e1", "refs", "uplink"), leaf("d", "if", e1, "descr"))
	add("c17b", leaf("g", "refs", "guard"), leaf("e9", "refs", "uplink"), leaf("e8", "refs", "opt-uplink"))
	add("c17c", leaf("e2", "refs", "uplink"), leaf("7", "if", e1, "unit", K{"id", "1"}, "vlan"), leaf("e2", "if", e1, "unit", K{"id", "1"}, "peer"))
	add("c17d", leaf("Upper", "sys", "hostname"), leaf("50", "sys", "mtu"), Leaf{P: P("refs", "ll"), LLU: []uint64{1, 2, 3}})
	add("c17e", leaf("ok", "sys", "mtu-ext"), leafLL([]string{"a", "b"}, "sys", "dns"), leaf("d2", "if", e2, "descr"))
	add("c17f", leaf("5000", "if", e1, "unit", K{"id", "2"}, "vlan"), leaf("e7", "if", e1, "unit", K{"id", "2"}, "peer"), leaf("x", "if", e2, "descr"))
	return fr
}

var c17Cache = NewWorkerCache()

// c17Verdict renders what the client and the device saw, independent of message order.
func c17Verdict(w *World, out *Outcome) string {
	var sb strings.Builder
	fmt.Fprintf(&sb, "err=%s conv=%s panic=%v\n", errStr(out.Err), errStr(out.ConvErr), out.Panic != "")
	var lines []string
	for name, ir := range out.Rsp.GetIntents() {
		es := append([]string{}, ir.GetErrors()...)
		ws := append([]string{}, ir.GetWarnings()...)
		sort.Strings(es)
		sort.Strings(ws)
		lines = append(lines, fmt.Sprintf("intent %s errors=%q warnings=%q", name, es, ws))
	}
	ws := append([]string{}, out.Rsp.GetWarnings()...)
	sort.Strings(ws)
	lines = append(lines, fmt.Sprintf("warnings=%q", ws))
	sort.Strings(lines)
	sb.WriteString(strings.Join(lines, "\n"))
	fmt.Fprintf(&sb, "\ndevice=%s", mapKey(w.Dev.Snapshot()))
	if st, err := w.Snapshot(); err == nil {
		fmt.Fprintf(&sb, "\nstate=%s", st.Key())
	}
	return sb.String()
}

func c17Run(u *Universe, sc c17Scenario, concurrent bool) (*World, *Outcome, error) {
	cc, err := c17Cache.Get()
	if err != nil {
		return nil, nil, err
	}
	val := &dconfig.Validation{DisableConcurrency: true}
	w, err := NewWorld(u, cc, nil, WorldOpts{Fragments: c17Fragments(), Validation: val})
	if err != nil {
		return nil, nil, err
	}
	if len(sc.Running) > 0 {
		if err := w.PreloadStore(cachepb.Store_CONFIG, sc.Running); err != nil {
			return nil, nil, err
		}
	}
	for _, op := range sc.Setup {
		if o := w.Apply(op); o.Err != nil || o.HasIntentErrors || o.Panic != "" {
			return nil, nil, fmt.Errorf("set-up step %v failed: %v %v", op, o.Err, o.Panic)
		}
	}
	val.DisableConcurrency = !concurrent
	out := w.Apply(sc.Test)
	return w, out, nil
}

func c17Sched(u *Universe, sc c17Scenario, want string) verifrt.Scenario {
	return func() ([]*verifrt.EnvEvent, func(), func(*verifrt.Result) (string, []string)) {
		var w *World
		var out *Outcome
		main := func() {
			var err error
			w, out, err = c17Run(u, sc, true)
			if err != nil {
				panic("harness: " + err.Error())
			}
		}
		finish := func(res *verifrt.Result) (string, []string) {
			viol := resultProblems(res)
			if res.Horizon {
				viol = append(viol, "livelock: the transaction did not finish within the step horizon")
			}
			for _, r := range res.Races {
				viol = append(viol, "data-race: "+r)
			}
			if res.Panic != "" || res.Deadlock || res.Horizon || w == nil || out == nil {
				return fmt.Sprintf("abnormal panic=%v deadlock=%v horizon=%v", res.Panic != "", res.Deadlock, res.Horizon), viol
			}
			if out.Panic != "" {
				viol = append(viol, "panic:"+crashSiteOf(out.Panic)+": "+firstLine(out.Panic))
			}
			got := c17Verdict(w, out)
			if got != want {
				viol = append(viol, "verdict-differs: concurrent validation returned\n"+got+"\nthe sequential run returned\n"+want)
			}
			return got, viol
		}
		return nil, main, finish
	}
}

func runC17() int {
	u, err := LoadUniverse()
	if err != nil {
		return fail(err)
	}
	rep := NewReporter("C17", "model_checking")
	rep.Assumptions = []string{
		"pkg/tree, pkg/types and pkg/datastore/clients/schema are rebuilt from the working tree by the instrumenter; the transaction under test runs through the real Datastore.TransactionSet over the real cache; interleavings are enumerated at the granularity of the tree's lock, WaitGroup, channel and go operations under sequential consistency",
		"the reference verdict is the same transaction on a fresh instance with DisableConcurrency; verdicts are compared as sets (errors and warnings sorted per intent) together with the device payload and the resulting stores",
		"data races are detected per execution by vector clocks over the modelled synchronisation on the tracked field and map accesses of the tree structures (FastTrack-style happens-before check)",
	}
	defer c17Cache.Close()
	sigOf := func(scn, v string, x *verifrt.Execution) string {
		clause := strings.SplitN(v, ":", 2)[0]
		switch clause {
		case "panic":
			clause = strings.Join(strings.SplitN(v, ":", 3)[:2], "@")
		case "data-race":
			// the pair of access sites identifies the race
			return "data-race:" + strings.TrimSpace(strings.SplitN(strings.SplitN(v, ":", 2)[1], " [", 2)[0])
		}
		return clause + ":" + scn
	}
	var scs []schedScenario
	shard := len(os.Args) > 2 && os.Args[2] == "shard"
	for _, sc := range c17Scenarios() {
		sc := sc
		want := ""
		if !shard || true {
			// the sequential reference (outside the explorer: DisableConcurrency spawns nothing but the result collector)
			var w *World
			var out *Outcome
			res := verifrt.Run(func(p *verifrt.Point) int { return 0 }, 200000, nil, func() {
				var err error
				w, out, err = c17Run(u, sc, false)
				if err != nil {
					panic("harness: " + err.Error())
				}
			})
			if res.Panic != "" || w == nil || out == nil {
				return fail(fmt.Errorf("C17 reference run of %s failed: %s", sc.Name, res.Panic))
			}
			want = c17Verdict(w, out)
		}
		scs = append(scs, schedScenario{sc.Name, c17Sched(u, sc, want)})
	}
	pb := 1
	schedSwitchBound = 1
	if Tier() == "thorough" {
		pb = 2
		schedSwitchBound = 2
	}
	shardByBranch = true
	tot, code := exploreSharded(rep, "C17", scs, pb, 0, 200000, deadlineFor(8*time.Minute, 100*time.Minute), sigOf)
	if code != 0 {
		return code
	}
	return rep.Finish(tot.coverage(map[string]any{"scenarios": len(scs)}))
}

func init() {
	Checks["C17"] = func([]string) int { return runC17() }
}
