//go:build verifsched

package h

import (
	"context"
	"fmt"
	"os"
	"os/exec"
	"path/filepath"
	"runtime"
	"runtime/debug"
	"sort"
	"strings"
	"time"

	"github.com/sdcio/cache/proto/cachepb"
	"github.com/sdcio/data-server/pkg/cache"
	dconfig "github.com/sdcio/data-server/pkg/config"
	"github.com/sdcio/data-server/pkg/tree"
	"github.com/sdcio/data-server/pkg/utils"
	"github.com/sdcio/data-server/pkg/verifrt"
	sdcpb "github.com/sdcio/sdc-protos/sdcpb"
)

// C17: validation verdicts do not depend on scheduling.
//
// pkg/tree, pkg/types and the bound schema client are compiled from instrumented sources (bin/vcheck-t): the
// goroutine per child of sharedEntryAttributes.Validate, the result channel, every childMap / LeafVariants /
// LeafEntry / cache / schema lock operation is a scheduling point. The transaction under test runs through the
// real Datastore.TransactionSet; all interleavings of its validators within the preemption bound are executed
// and each must produce the verdict of the sequential run (DisableConcurrency). The runtime's happens-before
// race detector (vector clocks over the modelled synchronisation) reports unsynchronised conflicting accesses
// to tree state in every explored execution.

type c17Scenario struct {
	Name    string
	Running []Leaf
	Setup   []Op
	Test    Op
	// TreeLevel: the tree is built the way lowlevelTransactionSet builds it, but without the up-front
	// RefreshCaches, so that the cache indexes are loaded on demand by the first validator that needs them
	TreeLevel bool
	// Bare (with TreeLevel): only the new intent contents are put into the tree (as the repository's tree tests do);
	// the old intent, the other intents and running are not loaded, so that the validators load what they need
	// on demand, including the indexes of the tree cache client
	Bare bool
	// DropRunning: after the set-up the device (and with it the running store) lost these subtrees, so that the
	// entries the transaction removes have no running variant left
	DropRunning []Path
	// MapOrder: the iteration order of every map ranged over by the instrumented packages while the transaction
	// under test runs is a data choice of the explorer (ascending or descending keys); one deviating map per execution
	MapOrder bool
	// OnlyMapOrder: the scenario takes part in the map-order phase only
	OnlyMapOrder bool
}

func c17Scenarios() []c17Scenario {
	A := func(f string) IntentSpec { return IntentSpec{Owner: "A", Prio: 10, Frag: f} }
	B := func(f string) IntentSpec { return IntentSpec{Owner: "B", Prio: 20, Frag: f} }
	C := func(f string) IntentSpec { return IntentSpec{Owner: "C", Prio: 30, Frag: f} }
	one := func(i ...IntentSpec) Op { return Op{Intents: i} }
	run1 := []Leaf{leaf("e1", "if", e1, "name"), leaf("run", "if", e1, "descr")}
	run2 := append(append([]Leaf{}, run1...), leaf("e2", "if", e2, "name"), leaf("900", "sys", "mtu"))
	scs := []c17Scenario{
		// must across branches with a default loaded on demand (sys/mtu default 1500), leafref into a sibling branch
		{Name: "must-default+leafref-ok", Running: run1, Test: one(A("c17a"))},
		// the same with a running mtu below the must threshold and a dangling leafref: errors and a warning
		{Name: "must-fails+leafref-missing+warning", Running: run2, Test: one(A("c17b"))},
		// leafref resolved only through the running config (lazy load of running values while siblings are validated)
		{Name: "leafref-into-running", Running: run2, Test: one(A("c17c"))},
		// two intents in one transaction, one of them invalid in three classes
		{Name: "two-intents-pattern-range-minmax", Running: run1, Test: one(A("c17d"), B("c17e"))},
		// removal of an intent that another intent's leafref depends on
		{Name: "delete-referenced", Running: nil, Setup: []Op{one(A("vif")), one(B("vup"))}, Test: one(IntentSpec{Owner: "A", Prio: 10, Delete: true})},
	}
	if Tier() == "thorough" {
		// mandatory + list keys + nested leafref
		scs = append(scs, c17Scenario{Name: "mandatory-missing+unit-peer", Running: run2, Test: one(A("c17f"), C("vmv"))})
	}
	// tree level: mandatory leaves held by another intent (looked up in the lazily loaded intended index by
	// several validators at once), leafrefs into running
	scs = append(scs,
		c17Scenario{Name: "tree:mandatory-of-other-intent", TreeLevel: true, Running: []Leaf{leaf("r", "sys", "hostname")}, Setup: []Op{one(A("c17m"))}, Test: one(B("c17v"))},
		c17Scenario{Name: "bare:lazy-indexes mandatory+leafref", TreeLevel: true, Bare: true, Running: run2, Setup: []Op{one(A("c17m"))}, Test: one(B("c17v"))},
	)
	scs = append(scs,
		// two must expressions in different validator goroutines need the same default (sys/mtu) in a container nobody
		// instantiated: both load it, and its schema, on demand
		c17Scenario{Name: "two-musts-default-on-demand", Running: nil, Test: one(A("c17g"))},
		// a leafref without key predicate (/if/name) while other entries of the list are being removed and have no
		// running variant any more: the candidates come from a map
		c17Scenario{Name: "leafref-among-removed-entries", OnlyMapOrder: true, Running: nil, Setup: []Op{one(A("c17i3"))},
			DropRunning: []Path{P("if", e2), P("if", K{"name", "e3"})}, Test: one(A("c17i1"))},
	)
	if Tier() == "thorough" {
		scs = append(scs,
			c17Scenario{Name: "tree:mandatory-missing+leafref", TreeLevel: true, Running: run2, Setup: []Op{one(A("vmm"))}, Test: one(B("c17v"), C("c17c"))},
			c17Scenario{Name: "shadowed-invalid", Running: run1, Setup: []Op{one(A("vm9"))}, Test: one(C("vm5"), B("vg"))},
			c17Scenario{Name: "three-intents", Running: run2, Test: one(A("c17a"), B("c17c"), C("c17e"))},
		)
	}
	// map-order phase: the same transactions with the default schedule and one map iterated in descending order
	n := len(scs)
	for i := 0; i < n; i++ {
		m := scs[i]
		m.Name = "maporder:" + m.Name
		m.MapOrder = true
		// at tree level: the intents are inserted in the order of the request (the datastore iterates a map of intents in
		// an order the explorer does not control) and the map-order points are those of tree construction and validation
		m.TreeLevel = true
		scenarioPB[m.Name] = 0
		scenarioDB[m.Name] = 1
		scs = append(scs, m)
	}
	var res []c17Scenario
	for _, sc := range scs {
		if sc.OnlyMapOrder && !sc.MapOrder {
			continue
		}
		res = append(res, sc)
	}
	return res
}

func c17Fragments() map[string]*Fragment {
	fr := ValidityFragments()
	add := func(name string, ls ...Leaf) { fr[name] = &Fragment{Name: name, Leaves: ls} }
	add("c17a", leaf("g", "refs", "guard"), leaf("e1", "refs", "uplink"), leaf("d", "if", e1, "descr"))
	add("c17b", leaf("g", "refs", "guard"), leaf("e9", "refs", "uplink"), leaf("e8", "refs", "opt-uplink"))
	add("c17c", leaf("e2", "refs", "uplink"), leaf("7", "if", e1, "unit", K{"id", "1"}, "vlan"), leaf("e2", "if", e1, "unit", K{"id", "1"}, "peer"))
	add("c17d", leaf("Upper", "sys", "hostname"), leaf("50", "sys", "mtu"), Leaf{P: P("refs", "ll"), LLU: []uint64{1, 2, 3}})
	add("c17e", leaf("ok", "sys", "mtu-ext"), leafLL([]string{"a", "b"}, "sys", "dns"), leaf("d2", "if", e2, "descr"))
	m1, m2, m3 := K{"id", "m1"}, K{"id", "m2"}, K{"id", "m3"}
	// two lists with a mandatory leaf: their mandatory checks run in different validator goroutines
	add("c17m", leaf("m", "mand", m1, "m"), leaf("m", "dk", K{"zk", "z1"}, K{"ak", "a1"}, "m"))
	add("c17v", leaf("v", "mand", m1, "v"), leaf("v", "dk", K{"zk", "z1"}, K{"ak", "a1"}, "v"))
	_, _ = m2, m3
	add("c17g", leaf("g", "refs", "guard"), leaf("h", "refs", "guard2"))
	e3 := K{"name", "e3"}
	add("c17i3", leaf("one", "if", e1, "descr"), leaf("two", "if", e2, "descr"), leaf("three", "if", e3, "descr"))
	add("c17i1", leaf("one", "if", e1, "descr"), leaf("e1", "refs", "uplink"))
	add("c17f", leaf("5000", "if", e1, "unit", K{"id", "2"}, "vlan"), leaf("e7", "if", e1, "unit", K{"id", "2"}, "peer"), leaf("x", "if", e2, "descr"))
	return fr
}

var c17Cache = NewWorkerCache()

// c17Verdict renders what the client and the device saw, independent of message order.
func c17Verdict(w *World, out *Outcome) string {
	var sb strings.Builder
	fmt.Fprintf(&sb, "err=%s conv=%s panic=%v\n", errStr(out.Err), errStr(out.ConvErr), out.Panic != "")
	var lines []string
	for name, ir := range out.Rsp.GetIntents() {
		es := append([]string{}, ir.GetErrors()...)
		ws := append([]string{}, ir.GetWarnings()...)
		sort.Strings(es)
		sort.Strings(ws)
		lines = append(lines, fmt.Sprintf("intent %s errors=%q warnings=%q", name, es, ws))
	}
	ws := append([]string{}, out.Rsp.GetWarnings()...)
	sort.Strings(ws)
	lines = append(lines, fmt.Sprintf("warnings=%q", ws))
	sort.Strings(lines)
	sb.WriteString(strings.Join(lines, "\n"))
	fmt.Fprintf(&sb, "\ndevice=%s", mapKey(w.Dev.Snapshot()))
	if st, err := w.Snapshot(); err == nil {
		fmt.Fprintf(&sb, "\nstate=%s", st.Key())
	}
	return sb.String()
}

func c17Run(u *Universe, sc c17Scenario, concurrent bool) (*World, *Outcome, error) {
	verifrt.MapOrderChoices = false
	cc, err := c17Cache.Get()
	if err != nil {
		return nil, nil, err
	}
	val := &dconfig.Validation{DisableConcurrency: true}
	w, err := NewWorld(u, cc, nil, WorldOpts{Fragments: c17Fragments(), Validation: val})
	if err != nil {
		return nil, nil, err
	}
	if len(sc.Running) > 0 {
		if err := w.PreloadStore(cachepb.Store_CONFIG, sc.Running); err != nil {
			return nil, nil, err
		}
	}
	for _, op := range sc.Setup {
		if o := w.Apply(op); o.Err != nil || o.HasIntentErrors || o.Panic != "" {
			return nil, nil, fmt.Errorf("set-up step %v failed: %v %v", op, o.Err, o.Panic)
		}
	}
	if len(sc.DropRunning) > 0 {
		var dels [][]string
		for _, p := range sc.DropRunning {
			dels = append(dels, utils.ToStrings(p.Sdcpb(), false, false))
		}
		if err := w.Raw.Modify(context.Background(), w.Name, &cache.Opts{Store: cachepb.Store_CONFIG}, dels, nil); err != nil {
			return nil, nil, err
		}
	}
	val.DisableConcurrency = !concurrent
	verifrt.MapOrderChoices = sc.MapOrder
	defer func() { verifrt.MapOrderChoices = false }()
	if sc.TreeLevel {
		out, err := c17TreeLevel(w, sc.Test, val, sc.Bare)
		return w, out, err
	}
	out := w.Apply(sc.Test)
	return w, out, nil
}

// c17TreeLevel validates the transaction on a tree built like Datastore.lowlevelTransactionSet builds it, except
// that the tree cache client's indexes are not refreshed up front. The verdict is put into a TransactionSetResponse
// so that it is compared like the others.
func c17TreeLevel(w *World, op Op, val *dconfig.Validation, bare bool) (*Outcome, error) {
	ctx := context.Background()
	out := &Outcome{Rsp: &sdcpb.TransactionSetResponse{Intents: map[string]*sdcpb.TransactionSetResponseIntent{}}}
	defer func() {
		if r := recover(); r != nil {
			out.Panic = fmt.Sprintf("%v\n%s", r, debug.Stack())
		}
	}()
	scb := w.DS.VerifSchemaClient()
	tscc := tree.NewTreeCacheClient(w.Name, w.CC)
	tc := tree.NewTreeContext(tscc, scb, w.Name)
	root, err := tree.NewTreeRoot(ctx, tc)
	if err != nil {
		return nil, err
	}
	involved := tree.NewPathSet()
	flagNew := tree.NewUpdateInsertFlags()
	flagNew.SetNewFlag()
	var names []string
	for _, is := range op.Intents {
		pi, err := w.BuildIntent(is)
		if err != nil {
			return nil, err
		}
		ti, err := w.DS.SdcpbTransactionIntentToInternalTI(ctx, pi)
		if err != nil {
			return nil, err
		}
		names = append(names, ti.GetName())
		tc.SetActualOwner(ti.GetName())
		if !bare {
			old, err := root.LoadIntendedStoreOwnerData(ctx, ti.GetName(), ti.GetOnlyIntended())
			if err != nil {
				return nil, err
			}
			involved.Join(old.ToPathSet())
		}
		if err := root.AddCacheUpdatesRecursive(ctx, ti.GetUpdates(), flagNew); err != nil {
			return nil, err
		}
		involved.Join(ti.GetUpdates().ToPathSet())
	}
	flags := tree.NewUpdateInsertFlags()
	if bare {
		root.FinishInsertionPhase(ctx)
		res := root.Validate(ctx, val)
		for name, r := range res {
			out.Rsp.Intents[name] = &sdcpb.TransactionSetResponseIntent{Errors: r.ErrorsString(), Warnings: r.WarningsString()}
		}
		return out, nil
	}
	for _, e := range tscc.ReadCurrentUpdatesHighestPriorities(ctx, involved.GetPaths(), uint64(len(names))+1) {
		skip := false
		for _, n := range names {
			if e.Owner() == n {
				skip = true
			}
		}
		if skip {
			continue
		}
		if _, err := root.AddCacheUpdateRecursive(ctx, e, flags); err != nil {
			return nil, err
		}
	}
	run, err := tscc.ReadRunningFull(ctx)
	if err != nil {
		return nil, err
	}
	for _, upd := range run {
		nu := cache.NewUpdate(upd.GetPath(), upd.Bytes(), tree.RunningValuesPrio, tree.RunningIntentName, 0)
		if _, err := root.AddCacheUpdateRecursive(ctx, nu, flags); err != nil {
			return nil, err
		}
	}
	root.FinishInsertionPhase(ctx)
	res := root.Validate(ctx, val)
	for name, r := range res {
		out.Rsp.Intents[name] = &sdcpb.TransactionSetResponseIntent{Errors: r.ErrorsString(), Warnings: r.WarningsString()}
	}
	return out, nil
}

func c17Sched(u *Universe, sc c17Scenario, want string) verifrt.Scenario {
	return func() ([]*verifrt.EnvEvent, func(), func(*verifrt.Result) (string, []string)) {
		var w *World
		var out *Outcome
		main := func() {
			var err error
			w, out, err = c17Run(u, sc, true)
			if err != nil {
				panic("harness: " + err.Error())
			}
		}
		finish := func(res *verifrt.Result) (string, []string) {
			viol := resultProblems(res)
			if res.Horizon {
				viol = append(viol, "livelock: the transaction did not finish within the step horizon")
			}
			for _, r := range res.Races {
				viol = append(viol, "data-race: "+r)
			}
			if res.Panic != "" || res.Deadlock || res.Horizon || w == nil || out == nil {
				return fmt.Sprintf("abnormal panic=%v deadlock=%v horizon=%v", res.Panic != "", res.Deadlock, res.Horizon), viol
			}
			if out.Panic != "" {
				viol = append(viol, "panic:"+crashSiteOf(out.Panic)+": "+firstLine(out.Panic))
			}
			got := c17Verdict(w, out)
			if got != want {
				viol = append(viol, "verdict-differs: concurrent validation returned\n"+got+"\nthe sequential run returned\n"+want)
			}
			return got, viol
		}
		return nil, main, finish
	}
}

func runC17() int {
	u, err := LoadUniverse()
	if err != nil {
		return fail(err)
	}
	rep := NewReporter("C17", "model_checking")
	rep.Assumptions = []string{
		"pkg/tree, pkg/types and pkg/datastore/clients/schema are rebuilt from the working tree by the instrumenter; the transaction under test runs through the real Datastore.TransactionSet over the real cache; interleavings are enumerated at the granularity of the tree's lock, WaitGroup, channel and go operations under sequential consistency",
		"the reference verdict is the same transaction on a fresh instance with DisableConcurrency; verdicts are compared as sets (errors and warnings sorted per intent) together with the device payload and the resulting stores",
		"data races are detected per execution by vector clocks over the modelled synchronisation on the tracked field and map accesses of the tree structures (FastTrack-style happens-before check)",
	}
	defer c17Cache.Close()
	sigOf := func(scn, v string, x *verifrt.Execution) string {
		clause := strings.SplitN(v, ":", 2)[0]
		switch clause {
		case "panic":
			clause = strings.Join(strings.SplitN(v, ":", 3)[:2], "@")
		case "data-race":
			// the pair of access sites identifies the race
			return "data-race:" + strings.TrimSpace(strings.SplitN(strings.SplitN(v, ":", 2)[1], " [", 2)[0])
		}
		return clause + ":" + scn
	}
	var scs []schedScenario
	shard := len(os.Args) > 2 && os.Args[2] == "shard"
	for _, sc := range c17Scenarios() {
		sc := sc
		want := ""
		if !shard || true {
			// the sequential reference (outside the explorer: DisableConcurrency spawns nothing but the result collector)
			var w *World
			var out *Outcome
			res := verifrt.Run(func(p *verifrt.Point) int { return 0 }, 200000, nil, func() {
				var err error
				w, out, err = c17Run(u, sc, false)
				if err != nil {
					panic("harness: " + err.Error())
				}
			})
			if res.Panic != "" || w == nil || out == nil {
				return fail(fmt.Errorf("C17 reference run of %s failed: %s", sc.Name, res.Panic))
			}
			want = c17Verdict(w, out)
		}
		scs = append(scs, schedScenario{sc.Name, c17Sched(u, sc, want)})
	}
	if len(os.Args) > 3 && os.Args[2] == "one" {
		var pick []schedScenario
		for _, sc := range scs {
			if sc.Name == os.Args[3] {
				pick = append(pick, sc)
			}
		}
		schedSwitchBound = 1
		tot := exploreScenarios(rep, pick, 1, 0, 200000, time.Now().Add(10*time.Minute), sigOf)
		for k, n := range tot.Outcomes {
			fmt.Fprintf(os.Stderr, "%d x %s\n", n, k)
		}
		return rep.Finish(tot.coverage(nil))
	}
	pb := 1
	schedSwitchBound = 1
	if Tier() == "thorough" {
		pb = 2
		schedSwitchBound = 2
	}
	// cheap scenarios first: a time cap (busy machine) then cuts the long tail, not whole scenarios
	order := map[string]int{"bare:lazy-indexes mandatory+leafref": 0, "tree:mandatory-of-other-intent": 1, "tree:mandatory-missing+leafref": 2, "delete-referenced": 3, "must-default+leafref-ok": 4, "leafref-into-running": 5}
	sort.SliceStable(scs, func(i, j int) bool {
		oi, iok := order[scs[i].Name]
		oj, jok := order[scs[j].Name]
		switch {
		case iok && jok:
			return oi < oj
		case iok:
			return true
		}
		return false && jok
	})
	shardByBranch = true
	tot, code := exploreSharded(rep, "C17", scs, pb, 0, 200000, deadlineFor(8*time.Minute, 60*time.Minute), sigOf)
	if code != 0 {
		return code
	}
	racePass := c17RacePass(rep)
	mo := 0
	for _, sc := range scs {
		if strings.HasPrefix(sc.Name, "maporder:") {
			mo++
		}
	}
	return rep.Finish(tot.coverage(map[string]any{"scenarios": len(scs), "supplementary_free_running_race_pass": racePass,
		"map_order_phase": map[string]any{"scenarios": mo, "preemption_bound": 0, "deviation_bound": 1,
			"what": "tree-level runs of the same transactions with the default schedule in which the iteration order of one map (every map ranged over in pkg/tree, pkg/types and the schema client, one at a time) is descending instead of ascending; covers both relative orders of every pair of entries of every map"}}))
}

// c17RacePass runs bin/vcheck-race (un-instrumented -race build of the same scenario bodies, real goroutines) and
// turns race reports whose stacks lie in the tree / types packages, and verdict differences, into violations.
// It is sampling and supplementary: the exhaustive verdict above does not depend on it.
func c17RacePass(rep *Reporter) map[string]any {
	bin := filepath.Join(VerifDir(), "bin", "vcheck-race")
	if _, err := os.Stat(bin); err != nil {
		return map[string]any{"ran": false, "reason": "bin/vcheck-race not built"}
	}
	cmd := exec.Command(bin, "C17race")
	cmd.Env = append(os.Environ(), "GORACE=halt_on_error=0 exitcode=0")
	var stdout, stderr strings.Builder
	cmd.Stdout, cmd.Stderr = &stdout, &stderr
	err := cmd.Run()
	reports := strings.Split(stderr.String(), "WARNING: DATA RACE")[1:]
	inTree := 0
	for _, r := range reports {
		var frames []string
		for _, l := range strings.Split(r, "\n") {
			l = strings.TrimSpace(l)
			if strings.HasPrefix(l, "github.com/sdcio/data-server/pkg/") && strings.HasSuffix(l, "()") {
				frames = append(frames, strings.TrimPrefix(l, "github.com/sdcio/data-server/pkg/"))
			}
		}
		tree := false
		for _, f := range frames {
			if strings.HasPrefix(f, "tree.") || strings.HasPrefix(f, "types.") || strings.HasPrefix(f, "datastore/clients/schema.") {
				tree = true
			}
		}
		if !tree || len(frames) == 0 {
			continue
		}
		inTree++
		top := frames[0]
		rep.Add(&Violation{Clause: "data-race", Sig: "data-race:free-running:" + top, Detail: "the Go race detector reports a data race during concurrent validation:" + firstLines(r, 30), Engine: "E4-sched (supplementary -race pass)",
			Case: map[string]any{"how": "tools/race-pass.sh", "frames": frames}})
	}
	for _, blk := range strings.Split(stdout.String(), "VERDICT-DIFFERS ")[1:] {
		name := firstLine(blk)
		rep.Add(&Violation{Clause: "verdict-differs", Sig: "verdict-differs:free-running:" + name, Detail: "free-running concurrent validation returned another verdict than the sequential run: " + firstLines(blk, 20), Engine: "E4-sched (supplementary -race pass)"})
	}
	res := map[string]any{"ran": true, "race_reports_total": len(reports), "race_reports_in_tree_packages": inTree, "summary": lastLine(stdout.String())}
	if err != nil {
		res["error"] = err.Error()
	}
	return res
}

func lastLine(s string) string {
	ls := strings.Split(strings.TrimSpace(s), "\n")
	return ls[len(ls)-1]
}

func init() {
	Checks["C17"] = func([]string) int { return runC17() }
}

// C17race: supplementary free-running pass (not part of the verdict of the exploration): the same scenario
// bodies run with real goroutines in a binary built with -race and without instrumentation (the runtime is
// inactive, every primitive is the real one). The Go race detector sees every memory access, including those
// the instrumenter cannot reroute (writes through pointers, slice elements, struct copies).
func runC17Race(args []string) int {
	u, err := LoadUniverse()
	if err != nil {
		return fail(err)
	}
	reps := 40
	if Tier() == "thorough" {
		reps = 400
	}
	defer c17Cache.Close()
	runs, differ := 0, 0
	for _, sc := range c17Scenarios() {
		wRef, oRef, err := c17Run(u, sc, false)
		if err != nil {
			return fail(err)
		}
		want := c17Verdict(wRef, oRef)
		for _, procs := range []int{2, 4, 8} {
			runtime.GOMAXPROCS(procs)
			for i := 0; i < reps; i++ {
				w, out, err := c17Run(u, sc, true)
				if err != nil {
					return fail(err)
				}
				runs++
				if got := c17Verdict(w, out); got != want {
					differ++
					fmt.Printf("VERDICT-DIFFERS scenario=%q GOMAXPROCS=%d\n%s\n--- sequential:\n%s\n", sc.Name, procs, got, want)
				}
			}
		}
	}
	fmt.Printf("C17race: %d concurrent runs, %d with a verdict different from the sequential run\n", runs, differ)
	if differ > 0 {
		return 1
	}
	return 0
}

func init() {
	Checks["C17race"] = runC17Race
}
