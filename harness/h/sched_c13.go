//go:build verifsched

package h

import (
	"context"
	"fmt"
	"os"
	"sort"
	"strings"
	"time"

	"github.com/sdcio/cache/proto/cachepb"
	dconfig "github.com/sdcio/data-server/pkg/config"
	"github.com/sdcio/data-server/pkg/datastore/target"
	"github.com/sdcio/data-server/pkg/verifrt"
	sdcpb "github.com/sdcio/sdc-protos/sdcpb"
)

// C13: the running datastore mirrors the device after sync.
//
// The real Datastore.Sync / storeSyncMsg (instrumented) run over the real cache; a scripted target feeds the
// notification sequence; every cache write / prune call is a scheduling point, so that the completion order of
// concurrently processed notifications is enumerated. Reference: the notifications applied in channel order.

type c13Msg struct {
	Name       string
	Start, End bool
	Dels       []Path
	Upds       []Leaf // scalar / leaf-list updates
	JSON       *c13JSON
	LLKeys     []c13LLKeys
	Bad        bool // carries one update the converter refuses (the implementation drops the notification); denotes nothing
}

type c13JSON struct {
	At     Path
	Doc    string
	Leaves []Leaf // what the document denotes
}

type c13LLKeys struct {
	At   Path // the leaf-list
	Vals []string
}

func (m c13Msg) notification() *sdcpb.Notification {
	n := &sdcpb.Notification{Timestamp: 1}
	for _, d := range m.Dels {
		n.Delete = append(n.Delete, d.Sdcpb())
	}
	for _, l := range m.Upds {
		n.Update = append(n.Update, &sdcpb.Update{Path: l.P.Sdcpb(), Value: l.Value()})
	}
	if m.JSON != nil {
		n.Update = append(n.Update, &sdcpb.Update{Path: m.JSON.At.Sdcpb(), Value: &sdcpb.TypedValue{Value: &sdcpb.TypedValue_JsonVal{JsonVal: []byte(m.JSON.Doc)}}})
	}
	if m.Bad {
		n.Update = append(n.Update, &sdcpb.Update{Path: P("sys", "mtu").Sdcpb(), Value: &sdcpb.TypedValue{Value: &sdcpb.TypedValue_StringVal{StringVal: "not-a-number"}}})
	}
	for _, lk := range m.LLKeys {
		for _, v := range lk.Vals {
			p := lk.At.Sdcpb()
			last := p.Elem[len(p.Elem)-1]
			last.Key = map[string]string{last.Name: v}
			n.Update = append(n.Update, &sdcpb.Update{Path: p})
		}
	}
	return n
}

func c13Alphabet() map[string]c13Msg {
	e10 := K{"name", "e10"}
	ms := []c13Msg{
		{Name: "uA", Upds: []Leaf{leaf("a", "if", e1, "descr")}},
		{Name: "uB", Upds: []Leaf{leaf("b", "if", e1, "descr")}},
		{Name: "uX", Upds: []Leaf{leaf("x", "if", e10, "descr")}},
		{Name: "uM", Upds: []Leaf{leaf("1400", "sys", "mtu"), leaf("m", "sys", "mtu-ext")}},
		{Name: "uS", Upds: []Leaf{leaf("up", "if", e1, "oper-state")}},
		{Name: "uJ", JSON: &c13JSON{At: P("if", e1), Doc: `{"descr":"j","enabled":false}`, Leaves: []Leaf{leaf("j", "if", e1, "descr"), leaf("false", "if", e1, "enabled")}}},
		{Name: "uK", JSON: &c13JSON{At: P("if"), Doc: `{"name":"e2","descr":"k"}`, Leaves: []Leaf{leaf("k", "if", K{"name", "e2"}, "descr")}}},
		{Name: "uL", LLKeys: []c13LLKeys{{At: P("if", e1, "tags"), Vals: []string{"t1", "t2"}}}},
		// leaf-lists of two list entries (and one in a plain container) sent as keys in one notification
		{Name: "uL2", LLKeys: []c13LLKeys{{At: P("if", e1, "tags"), Vals: []string{"t1", "t2"}}, {At: P("if", e10, "tags"), Vals: []string{"x1"}}, {At: P("sys", "dns"), Vals: []string{"d1"}}}},
		{Name: "uIfx", Upds: []Leaf{leaf("y", "ifx", e1, "descr")}},
		{Name: "dE1", Dels: []Path{P("if", e1)}},
		{Name: "dD", Dels: []Path{P("if", e1, "descr")}},
		{Name: "dM", Dels: []Path{P("sys", "mtu")}},
		{Name: "dIf", Dels: []Path{P("if")}},
		{Name: "dSD", Dels: []Path{P("if", e1, "oper-state"), P("if", e1, "descr")}},
		{Name: "dDS", Dels: []Path{P("if", e1, "descr"), P("if", e1, "oper-state")}},
		{Name: "uSD", Upds: []Leaf{leaf("up", "if", e1, "oper-state"), leaf("z", "if", e1, "descr")}},
		// delete of the entry and a JSON blob for it in one notification
		{Name: "rJ", Dels: []Path{P("if", e1)}, JSON: &c13JSON{At: P("if", e1), Doc: `{"descr":"j2"}`, Leaves: []Leaf{leaf("j2", "if", e1, "descr")}}},
		{Name: "rE1", Dels: []Path{P("if", e1)}, Upds: []Leaf{leaf("n", "if", e1, "descr")}},
		// a scalar update and a JSON blob in one notification
		{Name: "uMJ", Upds: []Leaf{leaf("1400", "sys", "mtu")}, JSON: &c13JSON{At: P("if", e1), Doc: `{"descr":"j3"}`, Leaves: []Leaf{leaf("j3", "if", e1, "descr")}}},
		// notifications that leave nothing to store sit between two that touch the same path
		{Name: "uE"},
		{Name: "uBad", Bad: true},
		{Name: "START", Start: true},
		{Name: "END", End: true},
	}
	res := map[string]c13Msg{}
	for _, m := range ms {
		res[m.Name] = m
	}
	return res
}

func c13Preload() []Leaf {
	e10 := K{"name", "e10"}
	return []Leaf{
		leaf("e1", "if", e1, "name"), leaf("old", "if", e1, "descr"), leaf("1g", "if", e1, "speed"),
		leaf("e10", "if", e10, "name"), leaf("old10", "if", e10, "descr"),
		leaf("9", "sys", "mtu-ext"),
		leaf("e1", "ifx", e1, "name"), leaf("oldx", "ifx", e1, "descr"),
	}
}

// c13Ref is the reference model: the two stores with the prune stamp of every entry (the index of the re-sync
// cycle in which it was written last), as the cache keeps it.
type c13Entry struct {
	Val   string
	Stamp int
}

type c13Ref struct {
	u        *Universe
	validate bool
	Config   map[string]c13Entry
	State    map[string]c13Entry
	paths    map[string]*sdcpb.Path // shared, append only
	cycle    int
	inCycle  bool
}

// c13WOp is one atomic cache write of a notification: a delete of a subtree or the write of one leaf.
type c13WOp struct {
	Del  *Path
	Leaf *Leaf
}

func newC13Ref(u *Universe, validate bool) *c13Ref {
	r := &c13Ref{u: u, validate: validate, Config: map[string]c13Entry{}, State: map[string]c13Entry{}, paths: map[string]*sdcpb.Path{}}
	for _, l := range c13Preload() {
		l := l
		r.applyOp(c13WOp{Leaf: &l})
	}
	for _, l := range c13PreloadState() {
		tv, _, err := u.typed(l)
		if err != nil {
			panic("harness: " + err.Error())
		}
		sp := l.P.Sdcpb()
		r.paths[CanonPath(sp)] = sp
		r.State[CanonPath(sp)] = c13Entry{Val: CanonTV(tv)}
	}
	return r
}

func (r *c13Ref) clone() *c13Ref {
	n := *r
	n.Config = make(map[string]c13Entry, len(r.Config))
	for k, v := range r.Config {
		n.Config[k] = v
	}
	n.State = make(map[string]c13Entry, len(r.State))
	for k, v := range r.State {
		n.State[k] = v
	}
	return &n
}

func (r *c13Ref) key() string {
	var sb strings.Builder
	for _, m := range []map[string]c13Entry{r.Config, r.State} {
		ks := make([]string, 0, len(m))
		for k := range m {
			ks = append(ks, k)
		}
		sort.Strings(ks)
		for _, k := range ks {
			fmt.Fprintf(&sb, "%s=%s;", k, m[k].Val)
		}
		sb.WriteString("|")
	}
	return sb.String()
}

var c13StateCache = map[string]bool{}

func (r *c13Ref) isState(p *sdcpb.Path) bool {
	c := CanonPath(p)
	if v, ok := c13StateCache[c]; ok {
		return v
	}
	res := false
	if se, err := r.u.GetSchema(context.Background(), p); err == nil {
		switch s := se.Schema.(type) {
		case *sdcpb.SchemaElem_Field:
			res = s.Field.IsState
		case *sdcpb.SchemaElem_Leaflist:
			res = s.Leaflist.IsState
		case *sdcpb.SchemaElem_Container:
			res = s.Container.IsState
		}
	}
	c13StateCache[c] = res
	return res
}

var c13TypedCache = map[string]string{}

func (r *c13Ref) canonValue(l Leaf) string {
	k := l.P.String() + "\x00" + l.CanonValue()
	if v, ok := c13TypedCache[k]; ok {
		return v
	}
	tv, _, err := r.u.typed(l)
	if err != nil {
		panic("harness: " + err.Error())
	}
	c13TypedCache[k] = CanonTV(tv)
	return c13TypedCache[k]
}

func (r *c13Ref) applyOp(o c13WOp) {
	if o.Leaf != nil {
		sp := o.Leaf.P.Sdcpb()
		c := CanonPath(sp)
		r.paths[c] = sp
		e := c13Entry{Val: r.canonValue(*o.Leaf), Stamp: r.cycle}
		if r.validate && r.isState(sp) {
			r.State[c] = e
		} else {
			r.Config[c] = e
		}
		return
	}
	sp := o.Del.Sdcpb()
	m := r.Config
	if r.validate && r.isState(sp) {
		m = r.State
	}
	for c := range m {
		if PathHasPrefix(r.paths[c], sp) {
			delete(m, c)
		}
	}
}

func (r *c13Ref) start() {
	r.cycle++
	r.inCycle = true
}

func (r *c13Ref) end() {
	if !r.inCycle {
		return
	}
	for _, m := range []map[string]c13Entry{r.Config, r.State} {
		for c, e := range m {
			if e.Stamp != r.cycle {
				delete(m, c)
			}
		}
	}
	r.inCycle = false
}

// ops lists the atomic writes of a notification in the order storeSyncMsg issues them: deletes, then updates
// (each followed by the key leaves of the list entries on its path).
func c13Ops(m c13Msg) []c13WOp {
	var ops []c13WOp
	for i := range m.Dels {
		ops = append(ops, c13WOp{Del: &m.Dels[i]})
	}
	upd := func(l Leaf) {
		l2 := l
		ops = append(ops, c13WOp{Leaf: &l2})
		for i, pe := range l.P {
			for _, k := range pe.Keys {
				kp := append(append(Path{}, l.P[:i+1]...), PE{Name: k[0]})
				ops = append(ops, c13WOp{Leaf: &Leaf{P: kp, V: k[1]}})
			}
		}
	}
	for _, l := range m.Upds {
		upd(l)
	}
	if m.JSON != nil {
		for _, l := range m.JSON.Leaves {
			upd(l)
		}
	}
	for _, lk := range m.LLKeys {
		upd(Leaf{P: lk.At, LL: lk.Vals})
	}
	return ops
}

// inOrder applies the sequence as the device sent it.
func (r *c13Ref) inOrder(seq []c13Msg) {
	for _, m := range seq {
		switch {
		case m.Start:
			r.start()
		case m.End:
			r.end()
		default:
			for _, o := range c13Ops(m) {
				r.applyOp(o)
			}
		}
	}
}

// c13Possible computes every final content reachable when the writes of different notifications overtake each
// other the way the implementation permits with several write workers: the writes of one notification keep
// their order and happen after the control message that precedes it; START is a barrier (it waits for the
// writers in flight), END is executed at its place in the channel order but does not wait.
func c13Possible(u *Universe, validate bool, seq []c13Msg, limit int) (map[string]bool, bool) {
	type notif struct {
		dels      []c13WOp // in order
		upds      []c13WOp // storeSyncMsg takes them from a map: any order, after the deletes
		after     int      // index (in controls) of the last control message before it, -1 = none
		beforeBar int      // index (in controls) of the next START after it, len(controls) = none
	}
	var controls []c13Msg
	var ns []notif
	for _, m := range seq {
		if m.Start || m.End {
			controls = append(controls, m)
			continue
		}
		n := notif{after: len(controls) - 1}
		for _, o := range c13Ops(m) {
			if o.Del != nil {
				n.dels = append(n.dels, o)
			} else {
				n.upds = append(n.upds, o)
			}
		}
		ns = append(ns, n)
	}
	for i := range ns {
		ns[i].beforeBar = len(controls)
		for c := ns[i].after + 1; c < len(controls); c++ {
			if controls[c].Start {
				ns[i].beforeBar = c
				break
			}
		}
	}
	res := map[string]bool{}
	seen := map[string]bool{}
	truncated := false
	finished := func(n *notif, dp int, mask uint) bool { return dp == len(n.dels) && mask == (uint(1)<<len(n.upds))-1 }
	var rec func(r *c13Ref, ctl int, dpos []int, masks []uint)
	rec = func(r *c13Ref, ctl int, dpos []int, masks []uint) {
		if len(res) >= limit || len(seen) >= 20*limit {
			truncated = true
			return
		}
		k := fmt.Sprintf("%d %v %v %d %v %s", ctl, dpos, masks, r.cycle, r.inCycle, r.stampKey())
		if seen[k] {
			return
		}
		seen[k] = true
		done := ctl == len(controls)
		for i := range ns {
			if !finished(&ns[i], dpos[i], masks[i]) {
				done = false
			}
		}
		if done {
			res[r.key()] = true
			return
		}
		// the next control message may run if it is not a START that still has earlier writers in flight
		if ctl < len(controls) {
			ok := true
			if controls[ctl].Start {
				for i := range ns {
					if ns[i].beforeBar == ctl && !finished(&ns[i], dpos[i], masks[i]) {
						ok = false
					}
				}
			}
			if ok {
				n := r.clone()
				if controls[ctl].Start {
					n.start()
				} else {
					n.end()
				}
				rec(n, ctl+1, dpos, masks)
			}
		}
		for i := range ns {
			if ns[i].after >= ctl {
				continue
			}
			if dpos[i] < len(ns[i].dels) {
				n := r.clone()
				n.applyOp(ns[i].dels[dpos[i]])
				np := append([]int{}, dpos...)
				np[i]++
				rec(n, ctl, np, masks)
				continue
			}
			for u := range ns[i].upds {
				if masks[i]&(1<<uint(u)) != 0 {
					continue
				}
				n := r.clone()
				n.applyOp(ns[i].upds[u])
				nm := append([]uint{}, masks...)
				nm[i] |= 1 << uint(u)
				rec(n, ctl, dpos, nm)
			}
		}
	}
	rec(newC13Ref(u, validate), 0, make([]int, len(ns)), make([]uint, len(ns)))
	return res, !truncated
}

func (r *c13Ref) stampKey() string {
	var sb strings.Builder
	for _, m := range []map[string]c13Entry{r.Config, r.State} {
		ks := make([]string, 0, len(m))
		for k := range m {
			ks = append(ks, k)
		}
		sort.Strings(ks)
		for _, k := range ks {
			fmt.Fprintf(&sb, "%s=%s@%d;", k, m[k].Val, m[k].Stamp)
		}
		sb.WriteString("|")
	}
	return sb.String()
}

func c13PreloadState() []Leaf {
	return []Leaf{leaf("down", "if", e1, "oper-state")}
}

var c13Cache = NewWorkerCache()

func c13Scenario(u *Universe, seq []string, workers int64, validate bool) verifrt.Scenario {
	alpha := c13Alphabet()
	var msgs []c13Msg
	for _, n := range seq {
		msgs = append(msgs, alpha[n])
	}
	var refCache *c13Ref
	inOrderRef := func() *c13Ref {
		if refCache == nil {
			refCache = newC13Ref(u, validate)
			refCache.inOrder(msgs)
		}
		return refCache
	}
	var possCache map[string]bool
	possComplete := true
	// possible reports whether the content is reachable by overtaking; if the enumeration had to be cut short the
	// answer is "cannot be excluded" (attributed to the recorded finding rather than raised as an alarm)
	possible := func(key string) bool {
		if possCache == nil {
			possCache, possComplete = c13Possible(u, validate, msgs, 100000)
		}
		return possCache[key] || !possComplete
	}
	return func() ([]*verifrt.EnvEvent, func(), func(*verifrt.Result) (string, []string)) {
		var w *World
		fed := false
		main := func() {
			cc, err := c13Cache.Get()
			if err != nil {
				panic("harness: " + err.Error())
			}
			w, err = NewWorld(u, cc, nil, WorldOpts{Sync: &dconfig.Sync{Validate: validate, WriteWorkers: workers, Buffer: 0}})
			if err != nil {
				panic("harness: " + err.Error())
			}
			if err := w.PreloadStore(cachepb.Store_CONFIG, c13Preload()); err != nil {
				panic("harness: " + err.Error())
			}
			if err := w.PreloadStore(cachepb.Store_STATE, c13PreloadState()); err != nil {
				panic("harness: " + err.Error())
			}
			// every cache write / prune call of the datastore is a scheduling point
			w.Log.Point = func(kind string) {
				if strings.HasPrefix(kind, "cache.") {
					verifrt.YieldPoint(kind)
				}
			}
			w.Dev.SyncFeed = func(ctx context.Context, cfg *dconfig.Sync, ch chan *target.SyncUpdate) {
				for _, name := range seq {
					m := alpha[name]
					su := &target.SyncUpdate{Start: m.Start, End: m.End}
					if !m.Start && !m.End {
						su.Update = m.notification()
					}
					verifrt.Send(ch, su)
				}
				fed = true
			}
			ctx, cancel := context.WithCancel(context.Background())
			var wg verifrt.WGState
			wg.Add(1)
			verifrt.Go("Sync", func() {
				defer wg.Done()
				w.DS.Sync(ctx)
			})
			// wait until the channel is drained and every write returned, then stop the loop
			verifrt.Quiesce()
			cancel()
			wg.Wait()
		}
		finish := func(res *verifrt.Result) (string, []string) {
			viol := resultProblems(res)
			if res.Horizon {
				viol = append(viol, "livelock: sync did not come to rest within the step horizon")
			}
			if res.Panic != "" || res.Deadlock || res.Horizon || w == nil {
				return fmt.Sprintf("abnormal panic=%v deadlock=%v horizon=%v", res.Panic != "", res.Deadlock, res.Horizon), viol
			}
			if !fed {
				viol = append(viol, "not-drained: the sync loop stopped consuming notifications")
				return "not drained", viol
			}
			if len(res.Unfinished) > 0 {
				viol = append(viol, "goroutines-left: "+strings.Join(res.Unfinished, "; "))
			}
			ref := inOrderRef()
			cfg, err := w.ReadStore(cachepb.Store_CONFIG)
			if err != nil {
				return "unreadable", append(viol, "store-unreadable: "+err.Error())
			}
			st, err := w.ReadStore(cachepb.Store_STATE)
			if err != nil {
				return "unreadable", append(viol, "store-unreadable: "+err.Error())
			}
			got := &c13Ref{Config: map[string]c13Entry{}, State: map[string]c13Entry{}}
			for c, v := range cfg {
				got.Config[c] = c13Entry{Val: v}
			}
			for c, v := range st {
				got.State[c] = c13Entry{Val: v}
			}
			var stale, missing, wrong, misrouted []string
			diff := func(tag string, have map[string]string, want map[string]c13Entry, other map[string]c13Entry) {
				for c, v := range have {
					rv, ok := want[c]
					switch {
					case !ok:
						if _, isOther := other[c]; isOther {
							misrouted = append(misrouted, tag+c)
						} else {
							stale = append(stale, tag+c+"="+v)
						}
					case rv.Val != v:
						wrong = append(wrong, fmt.Sprintf("%s%s=%s (device last reported %s)", tag, c, v, rv.Val))
					}
				}
				for c := range want {
					if _, ok := have[c]; !ok {
						missing = append(missing, tag+c)
					}
				}
			}
			diff("", cfg, ref.Config, ref.State)
			diff("STATE:", st, ref.State, ref.Config)
			for _, l := range [][]string{stale, missing, wrong, misrouted} {
				sort.Strings(l)
			}
			// with several write workers: is the difference explained by notifications overtaking each other?
			pre := ""
			if workers > 1 && got.key() != ref.key() && possible(got.key()) {
				pre = "overtaken-"
			}
			if len(stale) > 0 {
				viol = append(viol, pre+"stale-entry: the running store holds paths the device no longer reports: "+strings.Join(stale, ", "))
			}
			if len(missing) > 0 {
				viol = append(viol, pre+"missing-entry: the running store lacks paths the device last reported: "+strings.Join(missing, ", "))
			}
			if len(wrong) > 0 {
				viol = append(viol, pre+"not-latest: "+strings.Join(wrong, ", "))
			}
			if len(misrouted) > 0 {
				viol = append(viol, pre+"wrong-store: "+strings.Join(misrouted, ", "))
			}
			out := "mirror"
			if len(viol) > 0 {
				out = fmt.Sprintf("differs stale=%d missing=%d wrong=%d", len(stale), len(missing), len(wrong))
			}
			return out + " " + mapKey(cfg), viol
		}
		return nil, main, finish
	}
}

func c13Sequences() [][]string {
	all := []string{"uA", "uB", "uX", "uM", "uS", "uJ", "uK", "uL", "uL2", "uIfx", "dE1", "dD", "dM", "dIf", "rE1", "rJ", "dSD", "dDS", "uSD"}
	var seqs [][]string
	maxLen := 2
	if Tier() == "thorough" {
		maxLen = 3
	}
	var rec func(cur []string)
	rec = func(cur []string) {
		if len(cur) > 0 {
			seqs = append(seqs, append([]string{}, cur...))
		}
		if len(cur) == maxLen {
			return
		}
		for _, a := range all {
			rec(append(cur, a))
		}
	}
	rec(nil)
	// full re-sync cycles: pre (on change) START body END post
	pres := [][]string{{}, {"uA"}, {"uX"}, {"dE1"}, {"uS"}}
	posts := [][]string{{}, {"uB"}, {"dE1"}}
	bodyAlpha := []string{"uA", "uB", "uX", "uM"}
	if Tier() == "thorough" {
		pres = append(pres, []string{"uJ"}, []string{"uL"}, []string{"uIfx"}, []string{"uM"})
		posts = append(posts, []string{"uX"}, []string{"dIf"}, []string{"rE1"})
		bodyAlpha = append(bodyAlpha, "uJ", "uS", "uIfx")
	}
	bodies := [][]string{{}}
	for _, a := range bodyAlpha {
		bodies = append(bodies, []string{a})
		for _, b := range bodyAlpha {
			bodies = append(bodies, []string{a, b})
		}
	}
	for _, pre := range pres {
		for _, body := range bodies {
			for _, post := range posts {
				s := append([]string{}, pre...)
				s = append(s, "START")
				s = append(s, body...)
				s = append(s, "END")
				s = append(s, post...)
				seqs = append(seqs, s)
			}
		}
	}
	// a notification that stores nothing between two that touch the same path
	for _, mid := range []string{"uE", "uBad"} {
		for _, pair := range [][2]string{{"uA", "uB"}, {"uA", "dD"}, {"dE1", "uA"}} {
			seqs = append(seqs, []string{pair[0], mid, pair[1]})
		}
		seqs = append(seqs, []string{"START", "uA", mid, "uB", "END"})
	}
	seqs = append(seqs, []string{"uMJ"}, []string{"uA", "uMJ"}, []string{"uMJ", "dM"}, []string{"START", "uMJ", "END"})
	// two cycles
	seqs = append(seqs, []string{"START", "uA", "uX", "END", "START", "uX", "END"}, []string{"START", "uA", "END", "uB", "START", "uX", "END"})
	return seqs
}

func c13Scenarios(u *Universe) []schedScenario {
	var scs []schedScenario
	for _, seq := range c13Sequences() {
		hasState := false
		for _, s := range seq {
			if s == "uS" || s == "uJ" || s == "uMJ" || s == "dSD" || s == "dDS" || s == "uSD" {
				hasState = true
			}
		}
		for _, workers := range []int64{1, 2, 16} {
			for _, validate := range []bool{false, true} {
				if validate && !hasState && len(seq) > 2 {
					continue
				}
				// with more than one write worker notifications overtake each other (known finding): the quick tier
				// explores that only for short sequences
				if workers > 1 && len(seq) > 4 && Tier() != "thorough" {
					continue
				}
				name := fmt.Sprintf("%s workers=%d validate=%v", strings.Join(seq, ","), workers, validate)
				if (len(seq) >= 6 || workers > 1) && Tier() != "thorough" {
					scenarioPB[name] = 1 // quick tier: the long cycles and the runs with several workers with one preemption only
				}
				scs = append(scs, schedScenario{name, c13Scenario(u, seq, workers, validate)})
			}
		}
	}
	return scs
}

// c13Class abstracts a scenario for violation signatures: message kinds, worker class, validation.
func c13Class(scn string) string {
	parts := strings.SplitN(scn, " ", 2)
	kinds := map[string]bool{}
	for _, m := range strings.Split(parts[0], ",") {
		switch {
		case m == "START" || m == "END":
			kinds["cycle"] = true
		case strings.HasPrefix(m, "d") || strings.HasPrefix(m, "r"):
			kinds["del"] = true
		default:
			kinds["upd"] = true
		}
	}
	ks := []string{}
	for k := range kinds {
		ks = append(ks, k)
	}
	sort.Strings(ks)
	w := "workers>1"
	if strings.Contains(parts[1], "workers=1 ") {
		w = "workers=1"
	}
	return strings.Join(ks, "+") + ":" + w
}

func runC13() int {
	u, err := LoadUniverse()
	if err != nil {
		return fail(err)
	}
	rep := NewReporter("C13", "model_checking")
	rep.Assumptions = []string{
		"pkg/datastore is rebuilt from the working tree by the instrumenter; Datastore.Sync and storeSyncMsg run under the cooperative scheduler over the real cache; every cache call of the datastore is a scheduling point (the cache itself executes atomically), which enumerates the completion orders of concurrently processed notifications",
		"the scripted target sends well-bracketed cycles (START ... END); notifications are fed through the datastore's real sync channel",
	}
	sigOf := func(scn, v string, x *verifrt.Execution) string {
		clause := strings.SplitN(v, ":", 2)[0]
		if clause == "panic" {
			clause = strings.Join(strings.SplitN(v, ":", 3)[:2], "@")
		}
		return clause + ":" + c13Class(scn) + ":" + scn
	}
	pb := 2
	if Tier() == "thorough" {
		pb = 3
	}
	defer c13Cache.Close()
	if len(os.Args) > 5 && os.Args[2] == "one" {
		// debugging aid: C13 one <seq,comma separated> <workers> <validate>
		var workers int64
		fmt.Sscan(os.Args[4], &workers)
		seq := strings.Split(os.Args[3], ",")
		scs := []schedScenario{{os.Args[3] + " workers=" + os.Args[4] + " validate=" + os.Args[5], c13Scenario(u, seq, workers, os.Args[5] == "true")}}
		tot := exploreScenarios(rep, scs, pb, 1, 4000, time.Now().Add(5*time.Minute), sigOf)
		return rep.Finish(tot.coverage(nil))
	}
	tot, code := exploreSharded(rep, "C13", c13Scenarios(u), pb, 1, 4000, deadlineFor(8*time.Minute, 60*time.Minute), sigOf)
	if code != 0 {
		return code
	}
	return rep.Finish(tot.coverage(map[string]any{"write_workers": []int{1, 2, 16}, "sequences": len(c13Sequences()), "preemption_bound_note": "quick tier: sequences of 6 and more messages and all runs with several write workers use preemption bound 1, sequences of more than 4 messages run only with one write worker"}))
}

func init() {
	Checks["C13"] = func([]string) int { return runC13() }
	_ = os.Args
}
