// Package h is the verification harness for sdcio/data-server: universe schema,
// recording device, real-cache world, reference models and the exploration engines.
package h

import (
	"context"
	"fmt"
	"io"
	"math/big"
	"os"
	"path/filepath"
	"sort"
	"strings"
	"sync"

	cconfig "github.com/sdcio/cache/pkg/config"
	"github.com/sdcio/data-server/pkg/cache"
	dconfig "github.com/sdcio/data-server/pkg/config"
	dschema "github.com/sdcio/data-server/pkg/schema"
	sconfig "github.com/sdcio/schema-server/pkg/config"
	"github.com/sdcio/schema-server/pkg/schema"
	"github.com/sdcio/schema-server/pkg/store/memstore"
	sdcpb "github.com/sdcio/sdc-protos/sdcpb"
	log "github.com/sirupsen/logrus"
)

// Universe is the YANG universe loaded through the real schema-server store.
type Universe struct {
	Client    dschema.Client
	SchemaCfg *dconfig.SchemaConfig
}

var (
	uniOnce sync.Once
	uni     *Universe
	uniErr  error
)

// VerifDir returns the root of /verif (env VERIF_DIR overrides).
func VerifDir() string {
	if d := os.Getenv("VERIF_DIR"); d != "" {
		return d
	}
	return "/verif"
}

// Quiet silences logrus (the implementation logs a lot) for the whole process.
func Quiet() {
	log.SetOutput(io.Discard)
	log.SetLevel(log.PanicLevel)
}

// LoadUniverse loads /verif/schema once per process.
func LoadUniverse() (*Universe, error) {
	uniOnce.Do(func() {
		ms := memstore.New()
		sc := &sconfig.SchemaConfig{
			Name:    "verifvm",
			Vendor:  "verif",
			Version: "v1",
			Files:   []string{filepath.Join(VerifDir(), "schema")},
		}
		s, err := schema.NewSchema(sc)
		if err != nil {
			uniErr = err
			return
		}
		if err = ms.AddSchema(s); err != nil {
			uniErr = err
			return
		}
		uni = &Universe{
			Client:    dschema.NewLocalClient(ms),
			SchemaCfg: &dconfig.SchemaConfig{Name: sc.Name, Vendor: sc.Vendor, Version: sc.Version},
		}
	})
	return uni, uniErr
}

// GetSchema is a convenience for harness-side schema questions.
func (u *Universe) GetSchema(ctx context.Context, p *sdcpb.Path) (*sdcpb.SchemaElem, error) {
	rsp, err := u.Client.GetSchema(ctx, &sdcpb.GetSchemaRequest{
		Schema: u.SchemaCfg.GetSchema(),
		Path:   p,
	})
	if err != nil {
		return nil, err
	}
	return rsp.GetSchema(), nil
}

// NewLocalCache opens a real badger-backed local cache in a scratch directory.
func NewLocalCache(dir string) (cache.Client, error) {
	return cache.NewLocalCache(&cconfig.CacheConfig{
		StoreType: "badgerdb",
		Dir:       dir,
	})
}

// ScratchDir creates a fresh scratch directory under /dev/shm (never /tmp, never /verif).
func ScratchDir(tag string) (string, error) {
	base := "/dev/shm"
	if _, err := os.Stat(base); err != nil {
		base = os.TempDir()
	}
	return os.MkdirTemp(base, fmt.Sprintf("verif-%s-p%d-", tag, os.Getpid()))
}

// CleanStaleScratch removes scratch directories left behind by processes that no longer exist (killed runs).
func CleanStaleScratch() {
	for _, base := range []string{"/dev/shm", os.TempDir()} {
		ents, err := os.ReadDir(base)
		if err != nil {
			continue
		}
		for _, e := range ents {
			var tag string
			var pid int
			name := e.Name()
			if !strings.HasPrefix(name, "verif-") {
				continue
			}
			i := strings.Index(name, "-p")
			if i < 0 {
				continue
			}
			if _, err := fmt.Sscanf(name[i:], "-p%d-", &pid); err != nil || pid <= 0 {
				continue
			}
			_ = tag
			if _, err := os.Stat(fmt.Sprintf("/proc/%d", pid)); err == nil {
				continue // owner is alive
			}
			_ = os.RemoveAll(filepath.Join(base, name))
		}
	}
}

// ---------------------------------------------------------------------------
// paths

// PE is one path element with its keys (name,value) in the order given by the harness.
type PE struct {
	Name string
	Keys [][2]string
}

// Path is an instance path of the universe.
type Path []PE

// P builds a path: P("if", K{"name","e1"}, "descr").
type K [2]string

func P(parts ...any) Path {
	var p Path
	for _, x := range parts {
		switch v := x.(type) {
		case string:
			p = append(p, PE{Name: v})
		case K:
			p[len(p)-1].Keys = append(p[len(p)-1].Keys, [2]string(v))
		default:
			panic(fmt.Sprintf("bad path part %T", x))
		}
	}
	return p
}

// Sdcpb converts to the protobuf path.
func (p Path) Sdcpb() *sdcpb.Path {
	r := &sdcpb.Path{}
	for _, e := range p {
		pe := &sdcpb.PathElem{Name: e.Name}
		if len(e.Keys) > 0 {
			pe.Key = map[string]string{}
			for _, kv := range e.Keys {
				pe.Key[kv[0]] = kv[1]
			}
		}
		r.Elem = append(r.Elem, pe)
	}
	return r
}

// String is the canonical form (keys sorted by key name) used as map key everywhere in the harness.
func (p Path) String() string { return CanonPath(p.Sdcpb()) }

// CanonPath renders an sdcpb.Path canonically: /a[k1=v1][k2=v2]/b with keys sorted by name.
// Key values are written verbatim between '=' and ']' framed by a length prefix when they
// contain characters that would make the text ambiguous.
func CanonPath(p *sdcpb.Path) string {
	var sb strings.Builder
	for _, e := range p.GetElem() {
		sb.WriteByte('/')
		sb.WriteString(e.GetName())
		ks := make([]string, 0, len(e.GetKey()))
		for k := range e.GetKey() {
			ks = append(ks, k)
		}
		sort.Strings(ks)
		for _, k := range ks {
			v := e.GetKey()[k]
			sb.WriteByte('[')
			sb.WriteString(k)
			sb.WriteByte('=')
			if strings.ContainsAny(v, "[]/=") {
				fmt.Fprintf(&sb, "%d:%s", len(v), v)
			} else {
				sb.WriteString(v)
			}
			sb.WriteByte(']')
		}
	}
	if sb.Len() == 0 {
		return "/"
	}
	return sb.String()
}

// PathHasPrefix reports whether q is an element-wise ancestor-or-self of p (keys must match fully on
// shared elements, except that the last element of q may carry a subset of the keys).
func PathHasPrefix(p, q *sdcpb.Path) bool {
	pe, qe := p.GetElem(), q.GetElem()
	if len(qe) > len(pe) {
		return false
	}
	for i := range qe {
		if pe[i].GetName() != qe[i].GetName() {
			return false
		}
		for k, v := range qe[i].GetKey() {
			if pv, ok := pe[i].GetKey()[k]; !ok || pv != v {
				return false
			}
		}
		if i < len(qe)-1 && len(qe[i].GetKey()) != len(pe[i].GetKey()) {
			return false
		}
	}
	return true
}

// ---------------------------------------------------------------------------
// values

// CanonTV renders a typed value as the lexical YANG value it denotes.
func CanonTV(tv *sdcpb.TypedValue) string {
	if tv == nil {
		return "<nil>"
	}
	switch v := tv.Value.(type) {
	case *sdcpb.TypedValue_StringVal:
		return v.StringVal
	case *sdcpb.TypedValue_UintVal:
		return fmt.Sprintf("%d", v.UintVal)
	case *sdcpb.TypedValue_IntVal:
		return fmt.Sprintf("%d", v.IntVal)
	case *sdcpb.TypedValue_BoolVal:
		return fmt.Sprintf("%t", v.BoolVal)
	case *sdcpb.TypedValue_EmptyVal:
		return "<empty>"
	case *sdcpb.TypedValue_DecimalVal:
		return CanonDecimal(v.DecimalVal)
	case *sdcpb.TypedValue_IdentityrefVal:
		return v.IdentityrefVal.GetValue()
	case *sdcpb.TypedValue_BytesVal:
		return fmt.Sprintf("bytes:%x", v.BytesVal)
	case *sdcpb.TypedValue_DoubleVal:
		return fmt.Sprintf("double:%v", v.DoubleVal)
	case *sdcpb.TypedValue_FloatVal:
		return fmt.Sprintf("float:%v", v.FloatVal)
	case *sdcpb.TypedValue_AsciiVal:
		return v.AsciiVal
	case *sdcpb.TypedValue_LeaflistVal:
		els := make([]string, 0, len(v.LeaflistVal.GetElement()))
		for _, e := range v.LeaflistVal.GetElement() {
			els = append(els, CanonTV(e))
		}
		sort.Strings(els)
		return "[" + strings.Join(els, ",") + "]"
	case *sdcpb.TypedValue_JsonVal:
		return "json:" + string(v.JsonVal)
	case *sdcpb.TypedValue_JsonIetfVal:
		return "json_ietf:" + string(v.JsonIetfVal)
	case *sdcpb.TypedValue_AnyVal:
		return "any"
	case *sdcpb.TypedValue_ProtoBytes:
		return fmt.Sprintf("protobytes:%x", v.ProtoBytes)
	case nil:
		return "<unset>"
	}
	return fmt.Sprintf("?%T", tv.Value)
}

// CanonDecimal renders digits/10^precision without trailing fraction zeros ("-1.5", "3").
func CanonDecimal(d *sdcpb.Decimal64) string {
	if d.GetPrecision() > 40 {
		return fmt.Sprintf("%de-%d", d.GetDigits(), d.GetPrecision()) // not a decimal64; avoid computing 10^precision
	}
	r := new(big.Rat).SetFrac(big.NewInt(d.GetDigits()), new(big.Int).Exp(big.NewInt(10), big.NewInt(int64(d.GetPrecision())), nil))
	s := r.FloatString(int(d.GetPrecision()))
	if strings.Contains(s, ".") {
		s = strings.TrimRight(s, "0")
		s = strings.TrimSuffix(s, ".")
	}
	return s
}

// LL renders the canonical form of a leaf-list from its elements.
func LL(els ...string) string {
	c := append([]string{}, els...)
	sort.Strings(c)
	return "[" + strings.Join(c, ",") + "]"
}
