package h

import (
	"context"
	"fmt"
	"os"
	"sort"
	"strings"
	"sync"
	"sync/atomic"
	"time"

	"github.com/sdcio/cache/proto/cachepb"
	"github.com/sdcio/data-server/pkg/cache"
	dconfig "github.com/sdcio/data-server/pkg/config"
	"github.com/sdcio/data-server/pkg/datastore"
	"github.com/sdcio/data-server/pkg/datastore/target"
	"github.com/sdcio/data-server/pkg/datastore/types"
	"github.com/sdcio/data-server/pkg/utils"
	sdcpb "github.com/sdcio/sdc-protos/sdcpb"
	"google.golang.org/protobuf/proto"
	"google.golang.org/protobuf/types/known/emptypb"
)

// Leaf is one leaf assignment of a fragment.
type Leaf struct {
	P     Path
	V     string   // scalar, given as string (converted by the server to the YANG type)
	LL    []string // leaf-list elements (if non-nil)
	LLU   []uint64 // leaf-list elements given as typed unsigned integers (if non-nil)
	Empty bool     // presence container / empty leaf
	TV    *sdcpb.TypedValue
	Canon string // expected canonical value if it differs from V (e.g. explicit TV)
}

// Value returns the typed value a client would send.
func (l Leaf) Value() *sdcpb.TypedValue {
	switch {
	case l.TV != nil:
		return l.TV
	case l.Empty:
		return &sdcpb.TypedValue{Value: &sdcpb.TypedValue_EmptyVal{EmptyVal: &emptypb.Empty{}}}
	case l.LLU != nil:
		arr := &sdcpb.ScalarArray{}
		for _, e := range l.LLU {
			arr.Element = append(arr.Element, &sdcpb.TypedValue{Value: &sdcpb.TypedValue_UintVal{UintVal: e}})
		}
		return &sdcpb.TypedValue{Value: &sdcpb.TypedValue_LeaflistVal{LeaflistVal: arr}}
	case l.LL != nil:
		arr := &sdcpb.ScalarArray{}
		for _, e := range l.LL {
			arr.Element = append(arr.Element, &sdcpb.TypedValue{Value: &sdcpb.TypedValue_StringVal{StringVal: e}})
		}
		return &sdcpb.TypedValue{Value: &sdcpb.TypedValue_LeaflistVal{LeaflistVal: arr}}
	}
	return &sdcpb.TypedValue{Value: &sdcpb.TypedValue_StringVal{StringVal: l.V}}
}

// CanonValue is the canonical value the leaf denotes.
func (l Leaf) CanonValue() string {
	switch {
	case l.Canon != "":
		return l.Canon
	case l.Empty:
		return "<empty>"
	case l.LLU != nil:
		els := make([]string, 0, len(l.LLU))
		for _, e := range l.LLU {
			els = append(els, fmt.Sprintf("%d", e))
		}
		return LL(els...)
	case l.LL != nil:
		return LL(l.LL...)
	}
	return l.V
}

// Fragment is a named set of leaf assignments.
type Fragment struct {
	Name   string
	Leaves []Leaf
}

// Defined returns canonical path -> canonical value of everything the fragment defines, key leaves included.
func (f *Fragment) Defined() map[string]string {
	r := map[string]string{}
	for _, l := range f.Leaves {
		r[l.P.String()] = l.CanonValue()
		for i, e := range l.P {
			for _, kv := range e.Keys {
				kp := append(Path{}, l.P[:i+1]...)
				kp = append(kp, PE{Name: kv[0]})
				r[kp.String()] = kv[1]
			}
		}
	}
	return r
}

// Updates returns the sdcpb updates of the fragment.
func (f *Fragment) Updates() []*sdcpb.Update {
	var r []*sdcpb.Update
	for _, l := range f.Leaves {
		r = append(r, &sdcpb.Update{Path: l.P.Sdcpb(), Value: l.Value()})
	}
	return r
}

// IntentSpec is one intent of a transaction request.
type IntentSpec struct {
	Owner  string `json:"owner"`
	Prio   int32  `json:"prio"`
	Frag   string `json:"frag,omitempty"`
	Delete bool   `json:"delete,omitempty"`
	Orphan bool   `json:"orphan,omitempty"`
}

func (i IntentSpec) String() string {
	switch {
	case i.Orphan:
		return fmt.Sprintf("%s:orphan", i.Owner)
	case i.Delete:
		return fmt.Sprintf("%s:delete", i.Owner)
	}
	return fmt.Sprintf("%s@%d=%s", i.Owner, i.Prio, i.Frag)
}

// Op is one step of a history.
type Op struct {
	Intents []IntentSpec `json:"intents,omitempty"`
	Replace *IntentSpec  `json:"replace,omitempty"`
	DryRun  bool         `json:"dry_run,omitempty"`
	End     string       `json:"end,omitempty"` // "confirm" (default), "cancel", "none"
}

func (o Op) String() string {
	var s []string
	for _, i := range o.Intents {
		s = append(s, i.String())
	}
	r := "Set(" + strings.Join(s, " + ") + ")"
	if o.Replace != nil {
		r += "+replace(" + o.Replace.Frag + ")"
	}
	if o.DryRun {
		r += "[dry]"
	}
	if o.End != "" && o.End != "confirm" {
		r += "/" + o.End
	}
	return r
}

// Outcome of one TransactionSet.
type Outcome struct {
	Rsp        *sdcpb.TransactionSetResponse
	Err        error
	ConvErr    error // error while converting the request (before TransactionSet)
	EndErr     error // error of the confirm / cancel
	Panic      string
	TxID       string
	DevCalls   int // Set calls the device saw during this op (incl. confirm/cancel)
	ModifyCnt  int // cache.Modify calls during the TransactionSet itself
	HasIntentErrors bool
	ExpireStuck bool // End=="expire": the transaction slot was still occupied 30 s after a 1 ms timeout
}

// Rejected reports whether the transaction was not applied.
func (o *Outcome) Rejected() bool {
	return o.Err != nil || o.ConvErr != nil || o.HasIntentErrors || o.Panic != ""
}

// WorldOpts configures a world.
type WorldOpts struct {
	Validation *dconfig.Validation
	RenderAll  bool
	Sync       *dconfig.Sync
	Fragments  map[string]*Fragment
	Timeout    time.Duration
	// MakeTarget, if set, builds the southbound target (instead of the recording device) once the bound schema client exists.
	MakeTarget func(w *World) target.Target
	// ValueTimestamp, if not 0, is put into the timestamp field of every typed value of the intents (valid input: the
	// field is metadata, the datum is the same)
	ValueTimestamp uint64
	// ResyncOnProbe: before a probe operation the running store is rewritten the way a completed device sync rewrites
	// it: the same paths and data, freshly encoded (no value timestamps)
	ResyncOnProbe bool
}

// World is one fresh system instance: real datastore over a real cache instance and a recording device.
type World struct {
	U     *Universe
	Raw   cache.Client
	CC    *CacheDeco
	SC    *SchemaDeco
	Log   *CallLog
	Name  string
	Cfg   *dconfig.DatastoreConfig
	DS    *datastore.Datastore
	Dev   *Device
	Target target.Target
	Frags map[string]*Fragment
	Opts  WorldOpts
	txSeq int
}

var worldSeq atomic.Int64

// NewWorld creates a cache instance, a device preloaded with the initial running config, and the datastore.
func NewWorld(u *Universe, raw cache.Client, initial []Leaf, o WorldOpts) (*World, error) {
	ctx := context.Background()
	name := fmt.Sprintf("w%d", worldSeq.Add(1))
	if err := raw.Create(ctx, name, false, false); err != nil {
		return nil, err
	}
	lg := NewCallLog()
	w := &World{U: u, Raw: raw, Log: lg, Name: name, Frags: o.Fragments, Opts: o}
	w.CC = &CacheDeco{Client: raw, Log: lg}
	w.SC = &SchemaDeco{Client: u.Client, Log: lg}
	if o.Validation == nil {
		o.Validation = &dconfig.Validation{}
	}
	w.Cfg = &dconfig.DatastoreConfig{
		Name:       name,
		Schema:     u.SchemaCfg,
		SBI:        &dconfig.SBI{Type: "noop"},
		Validation: o.Validation,
		Sync:       o.Sync,
	}
	w.Dev = NewDevice()
	w.Dev.RenderAll = o.RenderAll
	w.Dev.Log = lg
	w.Target = w.Dev
	w.DS = datastore.NewForVerif(w.Cfg, w.SC, w.CC, w.Target)
	if o.MakeTarget != nil {
		// the production NETCONF/gNMI targets need the datastore's bound schema client
		w.Target = o.MakeTarget(w)
		w.DS = datastore.NewForVerif(w.Cfg, w.SC, w.CC, w.Target)
	}
	if len(initial) > 0 {
		if err := w.preloadRunning(ctx, initial); err != nil {
			w.Close()
			return nil, err
		}
	}
	return w, nil
}

// Reopen abandons the Datastore object and builds a new one over the same cache instance and device (a restart).
func (w *World) Reopen() {
	w.DS = datastore.NewForVerif(w.Cfg, w.SC, w.CC, w.Target)
}

// Close deletes the cache instance (skipped for pooled caches, whose whole directory is dropped instead:
// badger's DropPrefix stalls every writer of the DB).
func (w *World) Close() {
	// targets that hold connections of their own and can be closed without waiting say so (the scrapligo driver's
	// Close blocks for ever once its reader has seen EOF, so Close is not called on arbitrary targets)
	if c, ok := w.Target.(interface{ CloseForWorld() }); ok {
		c.CloseForWorld()
	}
	if _, pooled := w.Raw.(*pooledCache); pooled {
		return
	}
	_ = w.Raw.Delete(context.Background(), w.Name)
}

// pooledCache marks a cache client owned by a WorkerCache.
type pooledCache struct{ cache.Client }

// WorkerCache gives one worker a private badger DB and rotates it before the 65535-instance limit.
type WorkerCache struct {
	dir   string
	cc    cache.Client
	count int
}

func NewWorkerCache() *WorkerCache { return &WorkerCache{} }

// Get returns the worker's cache client, opening or rotating the DB as needed.
func (wc *WorkerCache) Get() (cache.Client, error) {
	if wc.cc != nil && wc.count < 20000 {
		wc.count++
		return wc.cc, nil
	}
	wc.Close()
	dir, err := ScratchDir("wc")
	if err != nil {
		return nil, err
	}
	cc, err := NewLocalCache(dir)
	if err != nil {
		os.RemoveAll(dir)
		return nil, err
	}
	wc.dir, wc.cc, wc.count = dir, &pooledCache{cc}, 1
	return wc.cc, nil
}

func (wc *WorkerCache) Close() {
	if wc.cc != nil {
		wc.cc.Close()
		os.RemoveAll(wc.dir)
		wc.cc = nil
	}
}

// preloadRunning writes the initial running configuration to the device and to the CONFIG store, the way
// a completed sync would have (typed values converted to their YANG types, key leaves included).
func (w *World) preloadRunning(ctx context.Context, leaves []Leaf) error {
	frag := &Fragment{Leaves: leaves}
	var upds []*cache.Update
	seen := map[string]bool{}
	add := func(p *sdcpb.Path, tv *sdcpb.TypedValue) error {
		c := CanonPath(p)
		if seen[c] {
			return nil
		}
		seen[c] = true
		se, err := w.U.GetSchema(ctx, p)
		if err != nil {
			return fmt.Errorf("preload %s: %w", c, err)
		}
		ctv, err := utils.ConvertTypedValueToYANGType(se, tv)
		if err != nil {
			return fmt.Errorf("preload %s: %w", c, err)
		}
		b, err := proto.Marshal(ctv)
		if err != nil {
			return err
		}
		upds = append(upds, cache.NewUpdate(utils.ToStrings(p, false, false), b, 0, "", 0))
		w.Dev.Preload(p, CanonTV(ctv))
		return nil
	}
	for _, l := range leaves {
		if err := add(l.P.Sdcpb(), l.Value()); err != nil {
			return err
		}
		for i, e := range l.P {
			for _, kv := range e.Keys {
				kp := append(Path{}, l.P[:i+1]...)
				kp = append(kp, PE{Name: kv[0]})
				if err := add(kp.Sdcpb(), &sdcpb.TypedValue{Value: &sdcpb.TypedValue_StringVal{StringVal: kv[1]}}); err != nil {
					return err
				}
			}
		}
	}
	_ = frag
	return w.Raw.Modify(ctx, w.Name, &cache.Opts{Store: cachepb.Store_CONFIG}, nil, upds)
}

// BuildIntent converts an IntentSpec to the protobuf request intent.
func (w *World) BuildIntent(i IntentSpec) (*sdcpb.TransactionIntent, error) {
	ti := &sdcpb.TransactionIntent{Intent: i.Owner, Priority: i.Prio, Delete: i.Delete || i.Orphan, Orphan: i.Orphan}
	if i.Frag != "" {
		f, ok := w.Frags[i.Frag]
		if !ok {
			return nil, fmt.Errorf("unknown fragment %q", i.Frag)
		}
		ti.Update = f.Updates()
		if w.Opts.ValueTimestamp != 0 {
			for _, u := range ti.Update {
				if u.GetValue() != nil {
					u.Value = proto.Clone(u.Value).(*sdcpb.TypedValue)
					u.Value.Timestamp = w.Opts.ValueTimestamp
				}
			}
		}
	}
	return ti, nil
}

// ResyncRunning rewrites every entry of the running (CONFIG) store with the same datum freshly encoded, as a
// completed device sync does: paths and values stay, encoding details of the writer (value timestamps) go.
func (w *World) ResyncRunning() error {
	ctx := context.Background()
	var upds []*cache.Update
	for _, u := range w.Raw.Read(ctx, w.Name, &cache.Opts{Store: cachepb.Store_CONFIG}, [][]string{{}}, 0) {
		tv, err := u.Value()
		if err != nil {
			return err
		}
		tv.Timestamp = 0
		b, err := proto.Marshal(tv)
		if err != nil {
			return err
		}
		upds = append(upds, cache.NewUpdate(u.GetPath(), b, 0, "", 0))
	}
	return w.Raw.Modify(ctx, w.Name, &cache.Opts{Store: cachepb.Store_CONFIG}, nil, upds)
}

// Apply executes one op: TransactionSet followed by confirm / cancel.
func (w *World) Apply(op Op) (out *Outcome) {
	ctx := context.Background()
	out = &Outcome{}
	w.txSeq++
	out.TxID = fmt.Sprintf("tx%d", w.txSeq)
	devBefore := w.Dev.NumCalls()
	defer func() {
		if r := recover(); r != nil {
			out.Panic = fmt.Sprintf("%v", r)
		}
		out.DevCalls = w.Dev.NumCalls() - devBefore
	}()
	var tis []*types.TransactionIntent
	for _, is := range op.Intents {
		pi, err := w.BuildIntent(is)
		if err != nil {
			out.ConvErr = err
			return out
		}
		ti, err := w.DS.SdcpbTransactionIntentToInternalTI(ctx, pi)
		if err != nil {
			out.ConvErr = err
			return out
		}
		tis = append(tis, ti)
	}
	var rep *types.TransactionIntent
	if op.Replace != nil {
		pi, err := w.BuildIntent(*op.Replace)
		if err != nil {
			out.ConvErr = err
			return out
		}
		// what pkg/server does with a replace intent
		pi.Priority = 2147483647 - 110
		pi.Intent = "replace"
		rep, err = w.DS.SdcpbTransactionIntentToInternalTI(ctx, pi)
		if err != nil {
			out.ConvErr = err
			return out
		}
	}
	to := w.Opts.Timeout
	if to == 0 {
		to = time.Hour
	}
	if op.End == "expire" {
		to = time.Millisecond
	}
	modBefore := w.Log.Count("cache.Modify")
	out.Rsp, out.Err = w.DS.TransactionSet(ctx, out.TxID, tis, rep, to, op.DryRun)
	out.ModifyCnt = w.Log.Count("cache.Modify") - modBefore
	for _, ir := range out.Rsp.GetIntents() {
		if len(ir.GetErrors()) > 0 {
			out.HasIntentErrors = true
		}
	}
	switch op.End {
	case "", "confirm":
		out.EndErr = w.DS.TransactionConfirm(ctx, out.TxID)
	case "cancel":
		out.EndErr = w.DS.TransactionCancel(ctx, out.TxID)
	case "expire":
		// the rollback timer (1 ms) fires in its own goroutine; wait until the open-transaction slot is
		// released. This is a watchdog, not an oracle: a slot that never clears is reported as such.
		if out.Err == nil && !out.HasIntentErrors && !op.DryRun {
			dl := time.Now().Add(30 * time.Second)
			for {
				id, _ := w.DS.VerifOpenTransaction()
				if id == "" {
					break
				}
				if time.Now().After(dl) {
					out.ExpireStuck = true
					break
				}
				time.Sleep(100 * time.Microsecond)
			}
		}
	}
	return out
}

// RetryEnd repeats only the end of a transaction (confirm / cancel) that Apply had started as out.TxID.
func (w *World) RetryEnd(out *Outcome, op Op) error {
	ctx := context.Background()
	switch op.End {
	case "cancel":
		return w.DS.TransactionCancel(ctx, out.TxID)
	case "", "confirm":
		return w.DS.TransactionConfirm(ctx, out.TxID)
	}
	return fmt.Errorf("RetryEnd: unsupported end %q", op.End)
}

// ---------------------------------------------------------------------------
// observation of the stores

// IntendedEntry is one entry of the intended store as read back through the cache API.
type IntendedEntry struct {
	Path  string // canonical path
	P     *sdcpb.Path
	Owner string
	Prio  int32
	Val   string
}

func (e IntendedEntry) Key() string {
	return fmt.Sprintf("%s|%s|%d|%s", e.Path, e.Owner, e.Prio, e.Val)
}

// schema knowledge for converting cache paths (key values ordered by key NAME, the ToStrings convention)
var (
	keysMemoMu sync.Mutex
	keysMemo   = map[string][]string{}
)

func (u *Universe) listKeysSorted(ctx context.Context, keyless []string) ([]string, error) {
	k := strings.Join(keyless, "/")
	keysMemoMu.Lock()
	v, ok := keysMemo[k]
	keysMemoMu.Unlock()
	if ok {
		return v, nil
	}
	p := &sdcpb.Path{}
	for _, n := range keyless {
		p.Elem = append(p.Elem, &sdcpb.PathElem{Name: n})
	}
	se, err := u.GetSchema(ctx, p)
	if err != nil {
		return nil, err
	}
	var keys []string
	for _, ks := range se.GetContainer().GetKeys() {
		keys = append(keys, ks.GetName())
	}
	sort.Strings(keys)
	keysMemoMu.Lock()
	keysMemo[k] = keys
	keysMemoMu.Unlock()
	return keys, nil
}

// StringsToPath is the inverse of utils.ToStrings under the universe schema.
func (u *Universe) StringsToPath(ctx context.Context, ss []string) (*sdcpb.Path, error) {
	p := &sdcpb.Path{}
	var keyless []string
	for i := 0; i < len(ss); i++ {
		pe := &sdcpb.PathElem{Name: ss[i]}
		p.Elem = append(p.Elem, pe)
		keyless = append(keyless, ss[i])
		keys, err := u.listKeysSorted(ctx, keyless)
		if err != nil {
			return nil, fmt.Errorf("StringsToPath(%q): %w", ss, err)
		}
		if len(keys) > 0 && i+1 < len(ss) {
			pe.Key = map[string]string{}
			for _, k := range keys {
				i++
				if i >= len(ss) {
					break
				}
				pe.Key[k] = ss[i]
			}
		}
	}
	return p, nil
}

// ReadIntended dumps the intended store through GetKeys + per-path Read(Priority:-1).
func (w *World) ReadIntended() ([]IntendedEntry, error) {
	ctx := context.Background()
	ch, err := w.Raw.GetKeys(ctx, w.Name, cachepb.Store_INTENDED)
	if err != nil {
		return nil, err
	}
	paths := map[string][]string{}
	type meta struct {
		owner string
		prio  int32
	}
	metas := map[string][]meta{}
	for e := range ch {
		k := strings.Join(e.GetPath(), "\x00")
		paths[k] = e.GetPath()
		metas[k] = append(metas[k], meta{e.Owner(), e.Priority()})
	}
	var res []IntendedEntry
	for k, p := range paths {
		upds := w.Raw.Read(ctx, w.Name, &cache.Opts{Store: cachepb.Store_INTENDED, Priority: -1}, [][]string{p}, 0)
		sp, err := w.U.StringsToPath(ctx, p)
		if err != nil {
			return nil, err
		}
		cp := CanonPath(sp)
		n := 0
		for _, u := range upds {
			if strings.Join(u.GetPath(), "\x00") != k {
				continue
			}
			tv, err := u.Value()
			val := ""
			if err != nil {
				val = "<undecodable>"
			} else {
				val = CanonTV(tv)
			}
			res = append(res, IntendedEntry{Path: cp, P: sp, Owner: u.Owner(), Prio: u.Priority(), Val: val})
			n++
		}
		if n != len(metas[k]) {
			return nil, fmt.Errorf("intended store: GetKeys lists %d entries for %v but Read returned %d", len(metas[k]), p, n)
		}
	}
	sort.Slice(res, func(i, j int) bool { return res[i].Key() < res[j].Key() })
	return res, nil
}

// ReadStore dumps the CONFIG or STATE store: canonical path -> canonical value.
func (w *World) ReadStore(st cachepb.Store) (map[string]string, error) {
	ctx := context.Background()
	upds := w.Raw.Read(ctx, w.Name, &cache.Opts{Store: st}, [][]string{{}}, 0)
	res := map[string]string{}
	for _, u := range upds {
		sp, err := w.U.StringsToPath(ctx, u.GetPath())
		if err != nil {
			return nil, err
		}
		tv, err := u.Value()
		val := "<undecodable>"
		if err == nil {
			val = CanonTV(tv)
		}
		res[CanonPath(sp)] = val
	}
	return res, nil
}

// StoredLeaf is one leaf of the CONFIG / STATE store.
type StoredLeaf struct {
	P   *sdcpb.Path
	Val string
}

// ReadStorePaths dumps the CONFIG or STATE store with structured paths.
func (w *World) ReadStorePaths(st cachepb.Store) (map[string]StoredLeaf, error) {
	ctx := context.Background()
	upds := w.Raw.Read(ctx, w.Name, &cache.Opts{Store: st}, [][]string{{}}, 0)
	res := map[string]StoredLeaf{}
	for _, u := range upds {
		sp, err := w.U.StringsToPath(ctx, u.GetPath())
		if err != nil {
			return nil, err
		}
		tv, err := u.Value()
		val := "<undecodable>"
		if err == nil {
			val = CanonTV(tv)
		}
		res[CanonPath(sp)] = StoredLeaf{P: sp, Val: val}
	}
	return res, nil
}

// PreloadStore writes leaves (typed by the schema, key leaves included) into the CONFIG or STATE store.
func (w *World) PreloadStore(st cachepb.Store, leaves []Leaf) error {
	ctx := context.Background()
	var upds []*cache.Update
	seen := map[string]bool{}
	add := func(p *sdcpb.Path, tv *sdcpb.TypedValue) error {
		c := CanonPath(p)
		if seen[c] {
			return nil
		}
		seen[c] = true
		se, err := w.U.GetSchema(ctx, p)
		if err != nil {
			return fmt.Errorf("preload %s: %w", c, err)
		}
		ctv, err := utils.ConvertTypedValueToYANGType(se, tv)
		if err != nil {
			return fmt.Errorf("preload %s: %w", c, err)
		}
		b, err := proto.Marshal(ctv)
		if err != nil {
			return err
		}
		upds = append(upds, cache.NewUpdate(utils.ToStrings(p, false, false), b, 0, "", 0))
		return nil
	}
	for _, l := range leaves {
		if err := add(l.P.Sdcpb(), l.Value()); err != nil {
			return err
		}
	}
	return w.Raw.Modify(ctx, w.Name, &cache.Opts{Store: st}, nil, upds)
}

// State is a canonical snapshot of everything a later transaction can observe.
type State struct {
	Intended []IntendedEntry
	Running  map[string]string
	Device   map[string]string
	OpenTx   string
}

func (w *World) Snapshot() (*State, error) {
	in, err := w.ReadIntended()
	if err != nil {
		return nil, err
	}
	run, err := w.ReadStore(cachepb.Store_CONFIG)
	if err != nil {
		return nil, err
	}
	id, _ := w.DS.VerifOpenTransaction()
	return &State{Intended: in, Running: run, Device: w.Dev.Snapshot(), OpenTx: id}, nil
}

func mapKey(m map[string]string) string {
	ks := make([]string, 0, len(m))
	for k := range m {
		ks = append(ks, k)
	}
	sort.Strings(ks)
	var sb strings.Builder
	for _, k := range ks {
		sb.WriteString(k)
		sb.WriteByte('=')
		sb.WriteString(m[k])
		sb.WriteByte('\n')
	}
	return sb.String()
}

// Key is the canonical state key (timestamps dropped, everything sorted).
func (s *State) Key() string {
	var sb strings.Builder
	sb.WriteString("I:")
	for _, e := range s.Intended {
		sb.WriteString(e.Key())
		sb.WriteByte('\n')
	}
	sb.WriteString("R:")
	sb.WriteString(mapKey(s.Running))
	sb.WriteString("D:")
	sb.WriteString(mapKey(s.Device))
	sb.WriteString("T:" + s.OpenTx)
	return sb.String()
}

// IntendedKey is the canonical key of the intended store alone.
func (s *State) IntendedKey() string {
	var sb strings.Builder
	for _, e := range s.Intended {
		sb.WriteString(e.Key())
		sb.WriteByte('\n')
	}
	return sb.String()
}
