//go:build verifsched

package h

import (
	"fmt"
	"strings"
	"time"

	"github.com/sdcio/data-server/pkg/verifrt"
)

// schedScenario is one E4 scenario: a name and a factory for fresh executions.
type schedScenario struct {
	Name string
	Sc   verifrt.Scenario
}

type schedTotals struct {
	Executions, Points, Divergences, Horizons int
	Outcomes                                  map[string]int
	Capped                                    bool
	PB, DB                                    int
	Samples                                   []any
}

// exploreScenarios runs the DFS explorer over every scenario with iterated bounds and reports violations.
func exploreScenarios(rep *Reporter, scs []schedScenario, maxPB, maxDB int, maxSteps int, deadline time.Time, sigOf func(scn string, v string, x *verifrt.Execution) string) *schedTotals {
	tot := &schedTotals{Outcomes: map[string]int{}, PB: maxPB, DB: maxDB}
	for _, sc := range scs {
		sc := sc
		// iterate the bounds: the first counterexample has the fewest preemptions / deviations
		seenViol := map[string]bool{}
		st := verifrt.Explore(verifrt.ExploreOpts{PreemptionBound: maxPB, DeviationBound: maxDB, MaxSteps: maxSteps, Deadline: deadline}, sc.Sc, func(x *verifrt.Execution) {
			for _, v := range x.Violations {
				sig := sigOf(sc.Name, v, x)
				if seenViol[sig] && rep.Count() > 2000 {
					continue
				}
				seenViol[sig] = true
				rep.Add(&Violation{Clause: strings.SplitN(v, ":", 2)[0], Sig: sig, Detail: v, Engine: "E4-sched",
					Case: map[string]any{"scenario": sc.Name, "choices": x.Choices, "trace": verifrt.FormatTrace(x.Res)}})
			}
			if len(tot.Samples) < 6 && len(x.Choices) > 3 && tot.Executions%97 == 0 {
				tot.Samples = append(tot.Samples, map[string]any{"scenario": sc.Name, "choices": x.Choices, "outcome": x.Outcome})
			}
			tot.Executions++
		})
		tot.Points += st.Points
		tot.Divergences += st.Divergences
		tot.Horizons += st.Horizons
		tot.Capped = tot.Capped || st.Capped
		for k, n := range st.Outcomes {
			tot.Outcomes[sc.Name+": "+k] += n
		}
	}
	return tot
}

func (t *schedTotals) coverage(extra map[string]any) map[string]any {
	outs := []string{}
	for k := range t.Outcomes {
		outs = append(outs, k)
	}
	if len(t.Samples) == 0 {
		t.Samples = []any{"no sample recorded"}
	}
	cov := map[string]any{
		"states":                        len(t.Outcomes),
		"transitions":                   t.Points,
		"traces_validated_against_impl": t.Executions,
		"executions":                    t.Executions,
		"scheduling_points":             t.Points,
		"distinct_outcomes":             len(t.Outcomes),
		"outcomes":                      t.Outcomes,
		"preemption_bound_completed":    t.PB,
		"deviation_bound_completed":     t.DB,
		"replay_divergences":            t.Divergences,
		"horizon_hits":                  t.Horizons,
		"samples":                       t.Samples,
		"exhaustive":                    !t.Capped && t.Divergences == 0 && t.Horizons == 0,
		"explanation":                   "every execution runs the instrumented implementation under the cooperative scheduler; 'states' counts distinct final outcomes, 'transitions' scheduling points executed",
	}
	if t.Capped {
		cov["capped"] = "time or execution cap reached before the bound was completed"
	}
	for k, v := range extra {
		cov[k] = v
	}
	return cov
}

func resultProblems(res *verifrt.Result) []string {
	var v []string
	if res.Panic != "" {
		site := crashSiteOf(res.PanicStack)
		v = append(v, fmt.Sprintf("panic:%s: %s", site, firstLine(res.Panic)))
	}
	if res.Deadlock {
		v = append(v, "deadlock: blocked threads: "+strings.Join(res.Blocked, "; "))
	}
	return v
}

func crashSiteOf(stack string) string {
	for _, l := range strings.Split(stack, "\n") {
		if i := strings.Index(l, "github.com/sdcio/data-server/pkg/"); i >= 0 && !strings.Contains(l, "verifrt") {
			s := l[i+len("github.com/sdcio/data-server/pkg/"):]
			if j := strings.Index(s, "("); j > 0 && !strings.HasPrefix(s[j:], "(*") {
				s = s[:j]
			}
			if j := strings.LastIndex(s, "(0x"); j > 0 {
				s = s[:j]
			}
			return strings.TrimSpace(s)
		}
	}
	return "unknown"
}
