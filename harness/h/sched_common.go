//go:build verifsched

package h

import (
	"encoding/json"
	"fmt"
	"os"
	"runtime"
	"strings"
	"sync"
	"time"

	"github.com/sdcio/data-server/pkg/verifrt"
)

// schedScenario is one E4 scenario: a name and a factory for fresh executions.
type schedScenario struct {
	Name string
	Sc   verifrt.Scenario
}

// schedSwitchBound, if > 0, bounds the non-default successor choices at blocking points (see rt/explore.go).
var schedSwitchBound = 0

// scenarioPB overrides the preemption bound for single scenarios (by name).
var scenarioPB = map[string]int{}

// scenarioDB overrides the deviation bound for single scenarios (by name).
var scenarioDB = map[string]int{}

type schedTotals struct {
	Executions, Points, Divergences, Horizons int
	Accesses, MaxThreads                      int
	Outcomes                                  map[string]int
	Capped                                    bool
	PB, DB                                    int
	Samples                                   []any
}

// exploreScenarios runs the DFS explorer over every scenario with iterated bounds and reports violations.
func exploreScenarios(rep *Reporter, scs []schedScenario, maxPB, maxDB int, maxSteps int, deadline time.Time, sigOf func(scn string, v string, x *verifrt.Execution) string) *schedTotals {
	return exploreScenariosShard(rep, scs, maxPB, maxDB, maxSteps, deadline, sigOf, 0, 0)
}

// exploreScenariosShard: with shards > 1 every scenario is explored for the first-level branches of this shard only.
func exploreScenariosShard(rep *Reporter, scs []schedScenario, maxPB, maxDB int, maxSteps int, deadline time.Time, sigOf func(scn string, v string, x *verifrt.Execution) string, shard, shards int) *schedTotals {
	tot := &schedTotals{Outcomes: map[string]int{}, PB: maxPB, DB: maxDB}
	for _, sc := range scs {
		sc := sc
		// iterate the bounds: the first counterexample has the fewest preemptions / deviations
		seenViol := map[string]bool{}
		scPB := maxPB
		if b, ok := scenarioPB[sc.Name]; ok {
			scPB = b
		}
		scDB := maxDB
		if b, ok := scenarioDB[sc.Name]; ok {
			scDB = b
		}
		st := verifrt.Explore(verifrt.ExploreOpts{PreemptionBound: scPB, DeviationBound: scDB, MaxSteps: maxSteps, Deadline: deadline, Shard: shard, Shards: shards, SwitchBound: schedSwitchBound}, sc.Sc, func(x *verifrt.Execution) {
			for _, v := range x.Violations {
				sig := sigOf(sc.Name, v, x)
				if seenViol[sig] && rep.Count() > 2000 {
					continue
				}
				seenViol[sig] = true
				rep.Add(&Violation{Clause: strings.SplitN(v, ":", 2)[0], Sig: sig, Detail: v, Engine: "E4-sched",
					Case: map[string]any{"scenario": sc.Name, "choices": x.Choices, "trace": verifrt.FormatTrace(x.Res)}})
			}
			if len(tot.Samples) < 6 && len(x.Choices) > 3 && tot.Executions%97 == 0 {
				tot.Samples = append(tot.Samples, map[string]any{"scenario": sc.Name, "choices": x.Choices, "outcome": x.Outcome})
			}
			tot.Executions++
		})
		tot.Points += st.Points
		tot.Divergences += st.Divergences
		tot.Horizons += st.Horizons
		tot.Accesses += st.Accesses
		if st.MaxThreads > tot.MaxThreads {
			tot.MaxThreads = st.MaxThreads
		}
		tot.Capped = tot.Capped || st.Capped
		for k, n := range st.Outcomes {
			tot.Outcomes[sc.Name+": "+k] += n
		}
	}
	return tot
}

func (t *schedTotals) coverage(extra map[string]any) map[string]any {
	outs := []string{}
	for k := range t.Outcomes {
		outs = append(outs, k)
	}
	if len(t.Samples) == 0 {
		t.Samples = []any{"no sample recorded"}
	}
	cov := map[string]any{
		"states":                        len(t.Outcomes),
		"transitions":                   t.Points,
		"traces_validated_against_impl": t.Executions,
		"executions":                    t.Executions,
		"scheduling_points":             t.Points,
		"distinct_outcomes":             len(t.Outcomes),
		"outcomes":                      t.Outcomes,
		"preemption_bound_completed":    t.PB,
		"deviation_bound_completed":     t.DB,
		"switch_bound":                  schedSwitchBound,
		"replay_divergences":            t.Divergences,
		"horizon_hits":                  t.Horizons,
		"max_threads":                   t.MaxThreads,
		"race_detector_accesses":        t.Accesses,
		"samples":                       t.Samples,
		"exhaustive":                    !t.Capped && t.Divergences == 0 && t.Horizons == 0,
		"explanation":                   "every execution runs the instrumented implementation under the cooperative scheduler; 'states' counts distinct final outcomes, 'transitions' scheduling points executed",
	}
	if t.Capped {
		cov["capped"] = "time or execution cap reached before the bound was completed"
	}
	for k, v := range extra {
		cov[k] = v
	}
	return cov
}

func resultProblems(res *verifrt.Result) []string {
	var v []string
	if res.Panic != "" {
		site := crashSiteOf(res.PanicStack)
		v = append(v, fmt.Sprintf("panic:%s: %s", site, firstLine(res.Panic)))
	}
	if res.Deadlock {
		v = append(v, "deadlock: blocked threads: "+strings.Join(res.Blocked, "; "))
	}
	return v
}

// raceProblems turns the reports of the runtime's happens-before detector (tracked packages only) into violations.
func raceProblems(res *verifrt.Result) []string {
	var v []string
	for _, r := range res.Races {
		// a pair with the harness's own observer (verif_hooks.go, read from the driver thread without the datastore
		// lock that orders the production accesses) says nothing about the product
		if strings.Contains(r, "verif_hooks.go") {
			continue
		}
		v = append(v, "data-race: "+r)
	}
	return v
}

func crashSiteOf(stack string) string {
	for _, l := range strings.Split(stack, "\n") {
		if i := strings.Index(l, "github.com/sdcio/data-server/pkg/"); i >= 0 && !strings.Contains(l, "verifrt") {
			s := l[i+len("github.com/sdcio/data-server/pkg/"):]
			if j := strings.Index(s, "("); j > 0 && !strings.HasPrefix(s[j:], "(*") {
				s = s[:j]
			}
			if j := strings.LastIndex(s, "(0x"); j > 0 {
				s = s[:j]
			}
			return strings.TrimSpace(s)
		}
	}
	return "unknown"
}

// shardByBranch makes exploreSharded split every scenario's exploration tree (first-level branches) instead of
// distributing whole scenarios.
var shardByBranch = false

// shardStdout is where a shard worker writes its result (its own stdout is silenced: the implementation prints).
var shardStdout *os.File

type shardResult struct {
	Tot        *schedTotals
	Violations []*Violation
}

// exploreSharded distributes the scenarios round-robin over worker processes (the cooperative scheduler is a
// process-wide singleton) and merges their results. In a worker (`<check> shard i n`) it explores its share and
// prints the result; the returned code is then the process exit code and tot is nil.
func exploreSharded(rep *Reporter, id string, scs []schedScenario, pb, db, maxSteps int, budget time.Duration, sigOf func(scn string, v string, x *verifrt.Execution) string) (*schedTotals, int) {
	if len(os.Args) > 4 && os.Args[2] == "shard" {
		var i, n int
		fmt.Sscan(os.Args[3], &i)
		fmt.Sscan(os.Args[4], &n)
		shardStdout = os.Stdout
		if null, err := os.OpenFile(os.DevNull, os.O_WRONLY, 0); err == nil {
			os.Stdout = null
		}
		var mine []schedScenario
		for j, s := range scs {
			if j%n == i || shardByBranch {
				mine = append(mine, s)
			}
		}
		srep := &Reporter{Property: id, bySig: map[string][]*Violation{}}
		var tot *schedTotals
		if shardByBranch {
			tot = exploreScenariosShard(srep, mine, pb, db, maxSteps, time.Now().Add(budget), sigOf, i, n)
		} else {
			tot = exploreScenarios(srep, mine, pb, db, maxSteps, time.Now().Add(budget), sigOf)
		}
		var vs []*Violation
		for _, l := range srep.bySig {
			for _, v := range l {
				if v != nil {
					vs = append(vs, v)
				}
			}
		}
		b, err := json.Marshal(shardResult{Tot: tot, Violations: vs})
		if err != nil {
			fmt.Fprintln(os.Stderr, err)
			os.Exit(2)
		}
		shardStdout.Write(append(b, '\n'))
		os.Exit(0)
	}
	n := shardCount()
	if n > len(scs) && !shardByBranch {
		n = len(scs)
	}
	outs := make([]shardResult, n)
	var wg sync.WaitGroup
	var mu sync.Mutex
	failed := false
	for i := 0; i < n; i++ {
		wg.Add(1)
		go func(i int) {
			defer wg.Done()
			if err := runShard(id, fmt.Sprint(i), fmt.Sprint(n), &outs[i]); err != nil {
				fmt.Fprintln(os.Stderr, err)
				mu.Lock()
				failed = true
				mu.Unlock()
			}
		}(i)
	}
	wg.Wait()
	if failed {
		return nil, 2
	}
	tot := &schedTotals{Outcomes: map[string]int{}, PB: pb, DB: db}
	for _, o := range outs {
		for _, v := range o.Violations {
			rep.Add(v)
		}
		if o.Tot == nil {
			continue
		}
		tot.Executions += o.Tot.Executions
		tot.Points += o.Tot.Points
		tot.Divergences += o.Tot.Divergences
		tot.Horizons += o.Tot.Horizons
		tot.Accesses += o.Tot.Accesses
		if o.Tot.MaxThreads > tot.MaxThreads {
			tot.MaxThreads = o.Tot.MaxThreads
		}
		tot.Capped = tot.Capped || o.Tot.Capped
		for k, c := range o.Tot.Outcomes {
			tot.Outcomes[k] += c
		}
		if len(tot.Samples) < 8 {
			tot.Samples = append(tot.Samples, o.Tot.Samples...)
		}
	}
	return tot, 0
}

func shardCount() int {
	n := runtime.NumCPU()
	if n > 16 {
		n = 16
	}
	if n < 1 {
		n = 1
	}
	return n
}
