package h

import (
	"crypto/sha1"
	"encoding/json"
	"fmt"
	"os"
	"path/filepath"
	"regexp"
	"sort"
	"strconv"
	"strings"
	"sync"
	"time"
)

// Violation is one failed oracle clause on one explored case.
type Violation struct {
	Property string `json:"property"`
	Clause   string `json:"clause"`    // which sentence of the property failed
	Sig      string `json:"signature"` // clause + where (schema path class / call site / op pattern)
	Detail   string `json:"detail"`
	Case     any    `json:"case"` // replayable description (history, schedule, input ...)
	Engine   string `json:"engine"`
}

// Finding is an entry of known_findings.json.
type Finding struct {
	Property string `json:"property"`
	Status   string `json:"status"` // "known" | "fixed"
	Match    string `json:"match"`  // regexp on the violation signature (anchored)
	Commit   string `json:"commit,omitempty"`
	What     string `json:"what"`
	re       *regexp.Regexp
}

// Reporter collects violations, matches them against known findings, writes replay files and evidence.
type Reporter struct {
	Property string
	Tier     string
	Seed     int64
	Level    string
	start    time.Time

	mu         sync.Mutex
	findings   []*Finding
	bySig      map[string][]*Violation
	knownHit   map[int]int
	Assumptions []string
}

func NewReporter(property, level string) *Reporter {
	tier := os.Getenv("VERIF_TIER")
	if tier != "thorough" {
		tier = "quick"
	}
	seed, _ := strconv.ParseInt(os.Getenv("VERIF_SEED"), 10, 64)
	r := &Reporter{Property: property, Tier: tier, Seed: seed, Level: level, start: time.Now(),
		bySig: map[string][]*Violation{}, knownHit: map[int]int{}}
	r.loadFindings()
	return r
}

func (r *Reporter) loadFindings() {
	b, err := os.ReadFile(filepath.Join(VerifDir(), "known_findings.json"))
	if err != nil {
		return
	}
	var doc struct {
		Findings []*Finding `json:"findings"`
	}
	if err := json.Unmarshal(b, &doc); err != nil {
		fmt.Fprintf(os.Stderr, "known_findings.json: %v\n", err)
		os.Exit(2)
	}
	for _, f := range doc.Findings {
		if f.Property != r.Property || f.Status != "known" {
			continue // fixed entries suppress nothing
		}
		re, err := regexp.Compile("^(?:" + f.Match + ")$")
		if err != nil {
			fmt.Fprintf(os.Stderr, "known_findings.json: bad match %q: %v\n", f.Match, err)
			os.Exit(2)
		}
		f.re = re
		r.findings = append(r.findings, f)
	}
}

// Add records a violation (thread-safe).
func (r *Reporter) Add(v *Violation) {
	v.Property = r.Property
	r.mu.Lock()
	defer r.mu.Unlock()
	if len(r.bySig[v.Sig]) < 5 {
		r.bySig[v.Sig] = append(r.bySig[v.Sig], v)
	} else {
		r.bySig[v.Sig] = append(r.bySig[v.Sig], nil) // count only
	}
}

// Count returns the number of violations recorded so far.
func (r *Reporter) Count() int {
	r.mu.Lock()
	defer r.mu.Unlock()
	n := 0
	for _, vs := range r.bySig {
		n += len(vs)
	}
	return n
}

// Finish prints KNOWN-FINDING / VIOLATION lines, writes replay files and the evidence file; returns the exit code.
func (r *Reporter) Finish(coverage map[string]any) int {
	r.mu.Lock()
	defer r.mu.Unlock()
	sigs := make([]string, 0, len(r.bySig))
	for s := range r.bySig {
		sigs = append(sigs, s)
	}
	sort.Strings(sigs)
	newViol := 0
	var lines []string
	knownLines := map[int]bool{}
	total := 0
	var sigSummary []map[string]any
	for _, s := range sigs {
		vs := r.bySig[s]
		total += len(vs)
		matched := -1
		for i, f := range r.findings {
			if f.re.MatchString(s) {
				matched = i
				break
			}
		}
		sigSummary = append(sigSummary, map[string]any{"signature": s, "count": len(vs), "known": matched >= 0})
		if matched >= 0 {
			if !knownLines[matched] {
				knownLines[matched] = true
				lines = append(lines, fmt.Sprintf("KNOWN-FINDING: property=%s %s", r.Property, r.findings[matched].What))
			}
			continue
		}
		// a new violation: one replay file per signature (first = shortest by construction)
		v := vs[0]
		sum := sha1.Sum([]byte(s))
		dir := filepath.Join(VerifDir(), "replay")
		_ = os.MkdirAll(dir, 0o755)
		path := filepath.Join(dir, fmt.Sprintf("%s-%x.json", r.Property, sum[:6]))
		b, _ := json.MarshalIndent(map[string]any{"violation": v, "occurrences": len(vs)}, "", " ")
		_ = os.WriteFile(path, b, 0o644)
		lines = append(lines, fmt.Sprintf("VIOLATION property=%s replay=%s", r.Property, path))
		lines = append(lines, fmt.Sprintf("  signature: %s\n  detail: %s", s, firstLine(v.Detail)))
		newViol++
	}
	coverage["violation_signatures"] = sigSummary
	ev := map[string]any{
		"property_id": r.Property,
		"tier":        r.Tier,
		"seed":        r.Seed,
		"level":       r.Level,
		"coverage":    coverage,
		"assumptions": r.Assumptions,
		"wall_s":      time.Since(r.start).Seconds(),
		"violations":  newViol,
		"known_finding_occurrences": total - countNew(r, sigs),
	}
	b, _ := json.MarshalIndent(ev, "", " ")
	dir := filepath.Join(VerifDir(), "evidence")
	_ = os.MkdirAll(dir, 0o755)
	if err := os.WriteFile(filepath.Join(dir, r.Property+".json"), b, 0o644); err != nil {
		fmt.Fprintf(os.Stderr, "cannot write evidence: %v\n", err)
		return 2
	}
	for _, l := range lines {
		fmt.Println(l)
	}
	if newViol > 0 {
		return 1
	}
	return 0
}

func countNew(r *Reporter, sigs []string) int {
	n := 0
	for _, s := range sigs {
		known := false
		for _, f := range r.findings {
			if f.re.MatchString(s) {
				known = true
				break
			}
		}
		if !known {
			n += len(r.bySig[s])
		}
	}
	return n
}

func firstLine(s string) string {
	if i := strings.IndexByte(s, '\n'); i >= 0 {
		return s[:i]
	}
	return s
}

// SchemaClass strips key predicates from a canonical path: /if[name=e1]/descr -> /if/descr.
func SchemaClass(canon string) string {
	var sb strings.Builder
	for i := 0; i < len(canon); {
		c := canon[i]
		if c != '[' {
			sb.WriteByte(c)
			i++
			continue
		}
		// predicate: [name=value] or [name=<len>:value]
		eq := strings.IndexByte(canon[i:], '=')
		if eq < 0 {
			break
		}
		j := i + eq + 1
		k := j
		for k < len(canon) && canon[k] >= '0' && canon[k] <= '9' {
			k++
		}
		if k > j && k < len(canon) && canon[k] == ':' {
			n, _ := strconv.Atoi(canon[j:k])
			if k+1+n < len(canon) && canon[k+1+n] == ']' {
				i = k + 1 + n + 1
				continue
			}
		}
		end := strings.IndexByte(canon[j:], ']')
		if end < 0 {
			break
		}
		i = j + end + 1
	}
	return sb.String()
}
