package h

import (
	"fmt"
	"os"
	"sort"
	"strings"
	"sync"
	"time"

	dconfig "github.com/sdcio/data-server/pkg/config"
)

// ValidityFragments: parts of configurations exercising every constraint class of the universe.
func ValidityFragments() map[string]*Fragment {
	fs := []*Fragment{
		{Name: "vh1", Leaves: []Leaf{leaf("r1", "sys", "hostname")}},
		{Name: "vhU", Leaves: []Leaf{leaf("Upper", "sys", "hostname")}},
		{Name: "vhL", Leaves: []Leaf{leaf("abcdefghijklmnopq", "sys", "hostname")}},
		{Name: "vm9", Leaves: []Leaf{leaf("9000", "sys", "mtu")}},
		{Name: "vm5", Leaves: []Leaf{leaf("500", "sys", "mtu")}},
		{Name: "vg", Leaves: []Leaf{leaf("g", "refs", "guard")}},
		{Name: "vup", Leaves: []Leaf{leaf("e1", "refs", "uplink")}},
		{Name: "vif", Leaves: []Leaf{leaf("d", "if", e1, "descr")}},
		{Name: "vif2", Leaves: []Leaf{leaf("d2", "if", e2, "descr"), leaf("e1", "if", e2, "unit", K{"id", "1"}, "peer")}},
		{Name: "vd3", Leaves: []Leaf{leafLL([]string{"a", "b", "c"}, "sys", "dns")}},
		{Name: "vd4", Leaves: []Leaf{leafLL([]string{"a", "b", "c", "d"}, "sys", "dns")}},
		{Name: "vl2", Leaves: []Leaf{{P: P("refs", "ll"), LLU: []uint64{1, 2}}}},
		{Name: "vl3", Leaves: []Leaf{{P: P("refs", "ll"), LLU: []uint64{1, 2, 3}}}},
		{Name: "vl77", Leaves: []Leaf{{P: P("refs", "ll"), LLU: []uint64{77}}}},
		{Name: "vmv", Leaves: []Leaf{leaf("v", "mand", K{"id", "m1"}, "v")}},
		{Name: "vmm", Leaves: []Leaf{leaf("m", "mand", K{"id", "m1"}, "m")}},
		// a relative leafref that climbs out of an entry of a two-key list (../../sys/hostname)
		// dm/strict has a default (on) that violates its own must unless dm/name is set: vdf alone is invalid
		// although no intent writes the offending leaf, vdn completes it, vds switches strict off
		{Name: "vdf", Leaves: []Leaf{leaf("x", "dm", "flag")}},
		{Name: "vdn", Leaves: []Leaf{leaf("n", "dm", "name")}},
		{Name: "vds", Leaves: []Leaf{leaf("off", "dm", "strict")}},
		{Name: "vok", Leaves: []Leaf{leaf("r1", "ok2", K{"k1", "sys"}, K{"k2", "y"}, "href")}},
	}
	m := map[string]*Fragment{}
	for _, f := range fs {
		m[f.Name] = f
	}
	return m
}

var ValidityFragOrder = []string{"vh1", "vhU", "vhL", "vm9", "vm5", "vg", "vup", "vif", "vif2", "vd3", "vd4", "vl2", "vl3", "vl77", "vmv", "vmm", "vok", "vdf", "vdn", "vds"}

func validityMulti() []Op {
	return []Op{
		{Intents: []IntentSpec{{Owner: "A", Prio: 10, Frag: "vmv"}, {Owner: "B", Prio: 20, Frag: "vmm"}}},
		{Intents: []IntentSpec{{Owner: "A", Prio: 10, Frag: "vh1"}, {Owner: "B", Prio: 20, Frag: "vok"}}},
		{Intents: []IntentSpec{{Owner: "A", Prio: 10, Frag: "vup"}, {Owner: "B", Prio: 20, Frag: "vif"}}},
		{Intents: []IntentSpec{{Owner: "A", Prio: 10, Frag: "vg"}, {Owner: "C", Prio: 30, Frag: "vm5"}}},
		{Intents: []IntentSpec{{Owner: "A", Prio: 10, Delete: true}, {Owner: "B", Prio: 20, Frag: "vh1"}}},
		{Intents: []IntentSpec{{Owner: "A", Prio: 10, Frag: "vg"}, {Owner: "B", Prio: 20, Frag: "vh1"}}},
		{Intents: []IntentSpec{{Owner: "A", Prio: 10, Frag: "vh1"}, {Owner: "B", Prio: 20, Frag: "vhL"}}},
		{Intents: []IntentSpec{{Owner: "A", Prio: 10, Delete: true}, {Owner: "B", Prio: 20, Delete: true}}},
	}
}

// validityAlphabet: owners with one priority each.
func validityAlphabet() []Op {
	var ops []Op
	prio := map[string]int32{"A": 10, "B": 20, "C": 30}
	for _, o := range OwnerOrder {
		ops = append(ops, single(IntentSpec{Owner: o, Prio: prio[o], Delete: true}))
	}
	for _, f := range ValidityFragOrder {
		for _, o := range OwnerOrder {
			ops = append(ops, single(IntentSpec{Owner: o, Prio: prio[o], Frag: f}))
		}
	}
	return append(ops, validityMulti()...)
}

// switch name -> constraint class it governs
var validatorSwitches = []struct {
	Name  string
	Class string
	Set   func(v *dconfig.Validators)
}{
	{"mandatory", "mandatory", func(v *dconfig.Validators) { v.Mandatory = true }},
	{"leafref", "leafref", func(v *dconfig.Validators) { v.Leafref = true }},
	{"leafref-min-max", "min-max", func(v *dconfig.Validators) { v.LeafrefMinMaxAttributes = true }},
	{"pattern", "pattern", func(v *dconfig.Validators) { v.Pattern = true }},
	{"must-statement", "must", func(v *dconfig.Validators) { v.MustStatement = true }},
	{"length", "length", func(v *dconfig.Validators) { v.Length = true }},
	{"range", "range", func(v *dconfig.Validators) { v.Range = true }},
	{"max-elements", "", func(v *dconfig.Validators) { v.MaxElements = true }},
}

// C04Checker: the accept/reject verdict is the validity of the resulting configuration.
type C04Checker struct {
	DisabledClass string // class excluded from the verdict (validator switched off), "" = none
	SwitchName    string
}

func classKey(m map[string]bool) string {
	ks := make([]string, 0, len(m))
	for k := range m {
		ks = append(ks, k)
	}
	sort.Strings(ks)
	return strings.Join(ks, "+")
}

func (c C04Checker) Check(s *Step) []*Violation {
	var vs []*Violation
	sw := ""
	if c.SwitchName != "" {
		sw = ":off=" + c.SwitchName
	}
	if s.Out.Panic != "" {
		return []*Violation{{Clause: "panic", Sig: "panic:" + opKinds(s.Op) + sw, Detail: "TransactionSet panicked: " + s.Out.Panic}}
	}
	if s.Out.ConvErr != nil {
		return nil // refused at conversion time (type-level): not part of this property
	}
	// the configuration that results if the transaction is applied
	would := s.ModelPre.Clone()
	applyEnd(would, s.Op, s.E.Frags)
	cfg := would.Expected()
	classes := RefClasses(cfg)
	delete(classes, c.DisabledClass)
	valid := len(classes) == 0
	mode := "single"
	if len(s.Op.Intents) > 1 {
		mode = "multi"
	}
	ctx := fmt.Sprintf("%s:%s%s", opKinds(s.Op), mode, sw)
	// cause tag (must only; the mandatory and leafref variants have their own recorded findings): the invalid result
	// would be valid if the values the transaction removes were still there, and they are in the running store
	cause := ""
	if !valid && classes["must"] {
		with := map[string]string{}
		for p, v := range cfg {
			with[p] = v
		}
		removed := false
		for p, v := range s.Pre.Running {
			if _, ok := with[p]; !ok {
				with[p] = v
				removed = true
			}
		}
		wc := RefClasses(with)
		delete(wc, c.DisabledClass)
		if removed && len(wc) == 0 {
			cause = ":removed-values-still-seen"
		}
	}
	applied := s.Out.DevCalls > 0 || (s.Post != nil && s.Pre.IntendedKey() != s.Post.IntendedKey())
	switch {
	case !s.Accepted && applied && !valid:
		vs = append(vs, &Violation{Clause: "invalid-applied-despite-errors", Sig: "invalid-applied-despite-errors:" + classKey(classes) + ":" + ctx,
			Detail: fmt.Sprintf("the response reports errors (%v) but the change was applied (device calls=%d); the resulting configuration violates %v; resulting=%v", intentErrors(s.Out), s.Out.DevCalls, classKey(classes), cfg)})
	case s.Accepted && !valid:
		vs = append(vs, &Violation{Clause: "invalid-accepted", Sig: "invalid-accepted:" + classKey(classes) + cause + ":" + ctx,
			Detail: fmt.Sprintf("applied, but the resulting configuration violates %v: %v; resulting=%v", classKey(classes), RefValidate(cfg), cfg)})
	case !s.Accepted && valid:
		vs = append(vs, &Violation{Clause: "valid-refused", Sig: "valid-refused:" + errClass(s.Out) + ":" + ctx,
			Detail: fmt.Sprintf("refused although the resulting configuration is valid: err=%v intentErrors=%v; resulting=%v", s.Out.Err, intentErrors(s.Out), cfg)})
	}
	// differential: the same resulting configuration as ONE intent on an empty datastore
	if len(cfg) > 0 {
		acc, out2, err := c.singleIntentVerdict(s, would)
		if err != nil {
			vs = append(vs, &Violation{Clause: "replica", Sig: "replica-error", Detail: err.Error()})
		} else if acc != s.Accepted {
			vs = append(vs, &Violation{Clause: "verdict-depends-on-split", Sig: fmt.Sprintf("verdict-depends-on-split:%s%s:history=%v,single=%v:%s", classKey(classes), cause, s.Accepted, acc, ctx),
				Detail: fmt.Sprintf("the transaction was accepted=%v, the same resulting configuration submitted as one intent to an empty datastore was accepted=%v (err=%v intentErrors=%v); resulting=%v", s.Accepted, acc, out2.Err, intentErrors(out2), cfg)})
		}
	}
	return vs
}

// errClass names the validator that refused (first error message), for signatures.
func errClass(o *Outcome) string {
	msg := ""
	if o.Err != nil {
		msg = o.Err.Error()
	}
	for _, es := range intentErrors(o) {
		for _, e := range es {
			msg += " " + e
		}
	}
	switch {
	case strings.Contains(msg, "must-statement"):
		return "must"
	case strings.Contains(msg, "mandatory"):
		return "mandatory"
	case strings.Contains(msg, "leaf reference"), strings.Contains(msg, "leafref"):
		return "leafref"
	case strings.Contains(msg, "length"):
		return "length"
	case strings.Contains(msg, "regex"):
		return "pattern"
	case strings.Contains(msg, "ranges"):
		return "range"
	case strings.Contains(msg, "elements"):
		return "min-max"
	case msg == "":
		return "no-message"
	}
	return "other"
}

// mergedFragment builds one fragment holding the ruling leaves of the model.
func mergedFragment(m *Model, frags map[string]*Fragment) *Fragment {
	f := &Fragment{Name: "__merged"}
	exp := m.Expected()
	done := map[string]bool{}
	for _, p := range sortedKeys(exp) {
		_, owner, _ := m.Ruling(p)
		li := m.Live[owner]
		for _, l := range frags[li.Frag].Leaves {
			if l.P.String() == p && !done[p] {
				done[p] = true
				f.Leaves = append(f.Leaves, l)
			}
		}
	}
	return f
}

func (c C04Checker) singleIntentVerdict(s *Step, would *Model) (bool, *Outcome, error) {
	f := mergedFragment(would, s.E.Frags)
	opts := s.E.Opts
	opts.Fragments = map[string]*Fragment{"__merged": f}
	w, err := NewWorld(s.E.U, s.CC, nil, opts)
	if err != nil {
		return false, nil, err
	}
	defer w.Close()
	out := w.Apply(single(IntentSpec{Owner: "Z", Prio: 10, Frag: "__merged"}))
	return !out.Rejected(), out, nil
}

// ---------------------------------------------------------------------------
// partitions of a target configuration into up to k intents with every priority order

type c04Target struct {
	Name   string
	Leaves []Leaf
}

func c04Targets() []c04Target {
	return []c04Target{
		{"valid-refs", []Leaf{leaf("r1", "sys", "hostname"), leaf("d", "if", e1, "descr"), leaf("e1", "refs", "uplink"), {P: P("refs", "ll"), LLU: []uint64{1, 2}}, leaf("g", "refs", "guard")}},
		{"valid-mand", []Leaf{leaf("v", "mand", K{"id", "m1"}, "v"), leaf("m", "mand", K{"id", "m1"}, "m"), leaf("9000", "sys", "mtu"), leafLL([]string{"a", "b", "c"}, "sys", "dns")}},
		{"valid-peer", []Leaf{leaf("d", "if", e1, "descr"), leaf("d2", "if", e2, "descr"), leaf("e1", "if", e2, "unit", K{"id", "1"}, "peer"), leaf("7", "if", e2, "unit", K{"id", "1"}, "vlan")}},
		{"invalid-leafref", []Leaf{leaf("r1", "sys", "hostname"), leaf("e1", "refs", "uplink"), leaf("d", "if", e2, "descr")}},
		{"invalid-must", []Leaf{leaf("g", "refs", "guard"), leaf("500", "sys", "mtu"), leaf("r1", "sys", "hostname")}},
		{"invalid-mandatory", []Leaf{leaf("v", "mand", K{"id", "m1"}, "v"), leaf("r1", "sys", "hostname"), leaf("d", "if", e1, "descr")}},
		{"invalid-length", []Leaf{leaf("abcdefghijklmnopq", "sys", "hostname"), leaf("d", "if", e1, "descr"), leaf("9000", "sys", "mtu")}},
	}
}

// setPartitions enumerates all partitions of {0..n-1} into at most k blocks (restricted growth strings).
func setPartitions(n, k int) [][]int {
	var res [][]int
	a := make([]int, n)
	var rec func(i, maxb int)
	rec = func(i, maxb int) {
		if i == n {
			res = append(res, append([]int{}, a...))
			return
		}
		for b := 0; b <= maxb && b < k; b++ {
			a[i] = b
			nm := maxb
			if b == maxb {
				nm = maxb + 1
			}
			rec(i+1, nm)
		}
	}
	rec(0, 0)
	return res
}

func permutations(n int) [][]int {
	var res [][]int
	p := make([]int, n)
	for i := range p {
		p[i] = i
	}
	var rec func(i int)
	rec = func(i int) {
		if i == n {
			res = append(res, append([]int{}, p...))
			return
		}
		for j := i; j < n; j++ {
			p[i], p[j] = p[j], p[i]
			rec(i + 1)
			p[i], p[j] = p[j], p[i]
		}
	}
	rec(0)
	return res
}

// runPartitions checks that the verdict does not depend on how a configuration is split among intents and priorities.
func runPartitions(u *Universe, rep *Reporter, maxBlocks int) (evals int, distinct int) {
	type job struct {
		t     c04Target
		part  []int
		perm  []int
		valid bool
	}
	jobs := make(chan job, 256)
	var wg sync.WaitGroup
	var mu sync.Mutex
	seenVerdict := map[string]bool{}
	for i := 0; i < 16; i++ {
		wg.Add(1)
		go func() {
			defer wg.Done()
			wc := NewWorkerCache()
			defer wc.Close()
			for j := range jobs {
				cc, err := wc.Get()
				if err != nil {
					fmt.Fprintln(os.Stderr, "cache:", err)
					continue
				}
				nb := 0
				for _, b := range j.part {
					if b+1 > nb {
						nb = b + 1
					}
				}
				frags := map[string]*Fragment{}
				var op Op
				for b := 0; b < nb; b++ {
					f := &Fragment{Name: fmt.Sprintf("p%d", b)}
					for li, bl := range j.part {
						if bl == b {
							f.Leaves = append(f.Leaves, j.t.Leaves[li])
						}
					}
					frags[f.Name] = f
					op.Intents = append(op.Intents, IntentSpec{Owner: fmt.Sprintf("P%d", b), Prio: int32(10 * (j.perm[b] + 1)), Frag: f.Name})
				}
				w, err := NewWorld(u, cc, nil, WorldOpts{Fragments: frags})
				if err != nil {
					fmt.Fprintln(os.Stderr, "world:", err)
					continue
				}
				out := w.Apply(op)
				w.Close()
				acc := !out.Rejected()
				mu.Lock()
				evals++
				seenVerdict[fmt.Sprintf("%s/%d/%v", j.t.Name, nb, acc)] = true
				mu.Unlock()
				if acc != j.valid {
					kind := "valid-refused"
					if acc {
						kind = "invalid-accepted"
					}
					rep.Add(&Violation{Clause: "partition-" + kind, Sig: fmt.Sprintf("partition-%s:%s:blocks=%d", kind, j.t.Name, nb), Engine: "E3-partitions",
						Detail: fmt.Sprintf("target %s (reference valid=%v) split as %v with priority order %v into one transaction on an empty datastore: accepted=%v err=%v intentErrors=%v", j.t.Name, j.valid, j.part, j.perm, acc, out.Err, intentErrors(out)),
						Case:   map[string]any{"target": j.t.Name, "partition": j.part, "priority_order": j.perm, "op": op.String()}})
				}
			}
		}()
	}
	for _, t := range c04Targets() {
		cfg := (&Fragment{Leaves: t.Leaves}).Defined()
		valid := len(RefClasses(cfg)) == 0
		for _, part := range setPartitions(len(t.Leaves), maxBlocks) {
			nb := 0
			for _, b := range part {
				if b+1 > nb {
					nb = b + 1
				}
			}
			for _, perm := range permutations(nb) {
				jobs <- job{t, part, perm, valid}
			}
		}
	}
	close(jobs)
	wg.Wait()
	return evals, len(seenVerdict)
}

// runC04 is the driver: history search with all validators on, shallower searches with each validator off, partitions.
func runC04() int {
	u, cleanup, e0, err := setupE1()
	if err != nil {
		return fail(err)
	}
	defer cleanup()
	rep := NewReporter("C04", "model_checking")
	rep.Assumptions = append(append([]string{}, commonAssumptions...),
		"the reference validator (harness/h/refvalid.go) encodes the explicit constraints of the universe schema only; type-level refusals at request conversion time are not judged",
		"validator switch runs use a smaller depth bound than the all-validators-on run")
	depth := 3
	if Tier() == "thorough" {
		depth = 4
	}
	cov := map[string]any{}
	var total, states int64
	runOne := func(name string, chk C04Checker, v *dconfig.Validation, d int) error {
		e := &E1{U: u, Cache: e0.Cache, Rep: rep, Checker: chk}
		e.Initials = []*Initial{{Name: "R0"}}
		e.Frags = ValidityFragments()
		e.Alphabet = validityAlphabet()
		e.Depth = d
		e.Opts = WorldOpts{Validation: v}
		e.Deadline = time.Now().Add(3 * time.Hour)
		if err := e.Run(); err != nil {
			return err
		}
		c := e.Coverage()
		cov["run_"+name] = map[string]any{"states": c["states"], "transitions": c["transitions"], "max_depth_completed": c["max_depth_completed"], "accepted": c["accepted"], "rejected": c["rejected"], "exhaustive": c["exhaustive"]}
		total += e.Transitions
		states += e.States
		if name == "all-on" {
			cov["samples"] = c["samples"]
			cov["distinct_outcomes"] = c["distinct_outcomes"]
			cov["alphabet_size"] = c["alphabet_size"]
		}
		return nil
	}
	if err := runOne("all-on", C04Checker{}, &dconfig.Validation{}, depth); err != nil {
		return fail(err)
	}
	for _, sw := range validatorSwitches {
		v := &dconfig.Validation{}
		sw.Set(&v.DisabledValidators)
		if err := runOne("off-"+sw.Name, C04Checker{DisabledClass: sw.Class, SwitchName: sw.Name}, v, 2); err != nil {
			return fail(err)
		}
	}
	// sequential validation must give the same verdicts
	if err := runOne("sequential", C04Checker{}, &dconfig.Validation{DisableConcurrency: true}, 2); err != nil {
		return fail(err)
	}
	maxBlocks := 3
	if Tier() == "thorough" {
		maxBlocks = 4
	}
	pe, pd := runPartitions(u, rep, maxBlocks)
	cov["partition_evaluations"] = pe
	cov["partition_distinct_target_blocks_verdict"] = pd
	cov["partition_max_blocks"] = maxBlocks
	cov["states"] = states
	cov["transitions"] = total + int64(pe)
	cov["traces_validated_against_impl"] = total + int64(pe)
	cov["exhaustive"] = true
	cov["explanation"] = "sum over one history search with all validators enabled, one shallower search per validator switch, one with sequential validation, and the enumeration of all partitions of 7 target configurations into up to partition_max_blocks intents with every priority order"
	return rep.Finish(cov)
}

func init() {
	Checks["C04"] = func([]string) int { return runC04() }
	e1ReplayHooks["C04"] = func(e *E1) {
		e.Checker = C04Checker{}
		e.Initials = []*Initial{{Name: "R0"}}
		e.Frags = ValidityFragments()
		e.Alphabet = validityAlphabet()
		e.Opts = WorldOpts{Validation: &dconfig.Validation{}}
		e.Deadline = time.Now().Add(time.Hour)
	}
}
