package h

import (
	"fmt"
	"strings"
)

// C05Checker: cancel and timeout restore the state from before the transaction (probe steps only).
type C05Checker struct{}

// c05Probes ends every op of the alphabet by cancel and by timer expiry.
func c05Probes(alphabet []Op) func(m *Model) []Op {
	return func(m *Model) []Op {
		var ops []Op
		for _, end := range []string{"cancel", "expire"} {
			for _, op := range alphabet {
				o := op
				o.End = end
				ops = append(ops, o)
			}
		}
		return ops
	}
}

func txKind(s *Step) string {
	var ks []string
	for _, is := range s.Op.Intents {
		old := s.ModelPre.Live[is.Owner]
		switch {
		case is.Orphan:
			ks = append(ks, "orphan")
		case is.Delete && old == nil:
			ks = append(ks, "delete-absent")
		case is.Delete:
			ks = append(ks, "delete")
		case old == nil:
			ks = append(ks, "create")
		case old.Prio != is.Prio:
			ks = append(ks, "reprioritise")
		case old.Frag == is.Frag:
			ks = append(ks, "same")
		default:
			ks = append(ks, "change")
		}
	}
	return strings.Join(ks, "+")
}

func (C05Checker) Check(s *Step) []*Violation {
	if !s.Probe {
		return nil
	}
	var vs []*Violation
	kind := s.Op.End + ":" + txKind(s)
	add := func(clause, where, detail string) {
		vs = append(vs, &Violation{Clause: clause, Sig: clause + ":" + kind + where, Detail: detail})
	}
	if s.Out.Panic != "" {
		add("panic", "", "panicked: "+s.Out.Panic)
		return vs
	}
	if s.Out.Err != nil || s.Out.ConvErr != nil || s.Out.HasIntentErrors {
		return nil // the transaction was never applied; nothing to restore
	}
	if s.Op.End == "cancel" && s.Out.EndErr != nil {
		add("cancel-failed", "", fmt.Sprintf("TransactionCancel of the open transaction returned %v", s.Out.EndErr))
	}
	if s.Out.ExpireStuck {
		add("expiry-stuck", "", "the transaction slot was still occupied 30 s after a 1 ms transaction timeout elapsed")
		return vs
	}
	if s.Post == nil {
		add("stores-unreadable", "", "stores unreadable after the rollback")
		return vs
	}
	if s.Pre.IntendedKey() != s.Post.IntendedKey() {
		add("intended-not-restored", "", "intended store after "+s.Op.End+" differs from before the transaction:\nbefore:\n"+s.Pre.IntendedKey()+"after:\n"+s.Post.IntendedKey())
	}
	// every path the transaction sent to the device is back at its previous value / absence
	n := s.Out.DevCalls
	calls := s.W.Dev.Calls
	if n == 0 {
		return vs
	}
	fwd := calls[len(calls)-n]
	managed := s.ModelPre.Expected()
	check := func(p string) {
		was, had := s.Pre.Device[p]
		now, has := s.Post.Device[p]
		if had != has || was != now {
			w, nw := "<absent>", "<absent>"
			if had {
				w = was
			}
			if has {
				nw = now
			}
			origin := "absent-before"
			if had {
				origin = "unmanaged-before"
				if _, m := managed[p]; m {
					origin = "managed-before"
				}
			}
			add("device-not-restored", ":"+origin+":"+SchemaClass(p), fmt.Sprintf("%s was %s before the transaction and is %s after %s (transaction sent updates=%v deletes=%v)", p, w, nw, s.Op.End, fwd.Updates, fwd.Deletes))
		}
	}
	for p := range fwd.Updates {
		check(p)
	}
	for i := range fwd.DelPath {
		for p := range managed {
			if pp, ok := s.W.Dev.prePaths[p]; ok && PathHasPrefix(pp, fwd.DelPath[i]) {
				check(p)
			}
		}
	}
	return vs
}
