//go:build verifsched

package h

import (
	"context"
	"errors"
	"fmt"
	"strings"
	"time"

	"github.com/sdcio/data-server/pkg/datastore"
	dtypes "github.com/sdcio/data-server/pkg/datastore/types"
	"github.com/sdcio/data-server/pkg/verifrt"
)

// C16 harness B: the same question at the Datastore level (real cache, recording device, real rollback).

var c16bCache = NewWorkerCache()

func c16DatastoreScenario(u *Universe, ops []string) verifrt.Scenario {
	frags := CoreFragments()
	return func() ([]*verifrt.EnvEvent, func(), func(*verifrt.Result) (string, []string)) {
		results := map[string]error{}
		done := map[string]bool{}
		var w *World
		var cancelT2 context.CancelFunc
		t2ctx, cancel := context.WithCancel(context.Background())
		cancelT2 = cancel
		t2Cancelled := false
		envs := []*verifrt.EnvEvent{}
		for _, o := range ops {
			if o == "Set(t2)" {
				envs = append(envs, &verifrt.EnvEvent{Name: "client-gives-up-t2", Enabled: func() bool { return !t2Cancelled && !done["Set(t2)"] }, Fire: func() { t2Cancelled = true; cancelT2() }})
			}
		}
		setupCalls := 0
		main := func() {
			cc, err := c16bCache.Get()
			if err != nil {
				panic("harness: " + err.Error())
			}
			w, err = NewWorld(u, cc, nil, WorldOpts{Fragments: frags})
			if err != nil {
				panic("harness: " + err.Error())
			}
			ctx := context.Background()
			mk := func(fr string, owner string, prio int32) []*dtypes.TransactionIntent {
				pi, _ := w.BuildIntent(IntentSpec{Owner: owner, Prio: prio, Frag: fr})
				ti, err := w.DS.SdcpbTransactionIntentToInternalTI(ctx, pi)
				if err != nil {
					panic("harness: " + err.Error())
				}
				return []*dtypes.TransactionIntent{ti}
			}
			if _, err := w.DS.TransactionSet(ctx, "t1", mk("fa", "A", 10), nil, time.Second, false); err != nil {
				panic("harness: setup transaction refused: " + err.Error())
			}
			setupCalls = w.Dev.NumCalls()
			t2Intents := mk("fd", "B", 20) // disjoint from t1's content, so that rollbacks of t1 are recognisable
			var wg verifrt.WGState
			wg.Add(len(ops))
			for _, o := range ops {
				o := o
				verifrt.Go(o, func() {
					defer wg.Done()
					switch o {
					case "Confirm(t1)":
						results[o] = w.DS.TransactionConfirm(ctx, "t1")
					case "Cancel(t1)":
						results[o] = w.DS.TransactionCancel(ctx, "t1")
					case "Confirm(other)":
						results[o] = w.DS.TransactionConfirm(ctx, "other")
					case "Set(t2)":
						_, results[o] = w.DS.TransactionSet(t2ctx, "t2", t2Intents, nil, time.Second, false)
					}
					done[o] = true
				})
			}
			wg.Wait()
		}
		finish := func(res *verifrt.Result) (string, []string) {
			defer func() {
				if w != nil {
					w.Close()
				}
			}()
			viol := resultProblems(res)
			if res.Panic != "" || res.Deadlock || res.Horizon || w == nil {
				return fmt.Sprintf("abnormal panic=%v deadlock=%v horizon=%v", res.Panic != "", res.Deadlock, res.Horizon), viol
			}
			timerFired := false
			for _, p := range res.Points {
				c := p.Enabled[p.Chosen]
				if c.Thread < 0 && strings.HasPrefix(c.Env, "timer#0") {
					timerFired = true
				}
			}
			ok := func(o string) bool { err, has := results[o]; return has && err == nil }
			// rollbacks of t1 among the device calls after the set-up: they delete what t1 created (the list entry if[name=e1])
			rollbacks := 0
			for _, c := range w.Dev.Calls[setupCalls:] {
				for _, d := range c.Deletes {
					if d == "/if[name=e1]" {
						rollbacks++
					}
				}
			}
			if rollbacks > 1 {
				viol = append(viol, fmt.Sprintf("rolled-back-more-than-once: %d rollback transactions reached the device", rollbacks))
			}
			if ok("Confirm(t1)") && rollbacks > 0 {
				viol = append(viol, fmt.Sprintf("confirmed-but-rolled-back: TransactionConfirm(t1) returned success and %d rollback(s) reached the device", rollbacks))
			}
			if ok("Cancel(t1)") && rollbacks != 1 {
				viol = append(viol, fmt.Sprintf("cancelled-without-single-rollback: TransactionCancel(t1) returned success, %d rollback(s) reached the device", rollbacks))
			}
			if ok("Confirm(other)") {
				viol = append(viol, "wrong-id-accepted: TransactionConfirm(other) returned success")
			}
			if !ok("Confirm(t1)") && !ok("Cancel(t1)") && timerFired && rollbacks != 1 {
				viol = append(viol, fmt.Sprintf("expired-without-single-rollback: the timer fired, neither Confirm nor Cancel succeeded, %d rollback(s) reached the device", rollbacks))
			}
			// a Confirm / Cancel for the open transaction is not refused merely because another TransactionSet waits
			for _, o := range []string{"Confirm(t1)", "Cancel(t1)"} {
				if err, has := results[o]; has && errors.Is(err, datastore.ErrDatastoreLocked) {
					other := ""
					for _, p := range ops {
						if p != o && p != "Set(t2)" {
							other = p
						}
					}
					if other == "" {
						viol = append(viol, fmt.Sprintf("refused-while-set-waits: %s returned ErrDatastoreLocked although the only other request is a TransactionSet(t2) waiting for the datastore", o))
					}
				}
			}
			short := func(e error) string {
				switch {
				case e == nil:
					return "ok"
				case errors.Is(e, datastore.ErrDatastoreLocked):
					return "locked"
				}
				return "error"
			}
			out := fmt.Sprintf("confirm=%s cancel=%s other=%s t2=%s rollbacks=%d fired=%v", short(results["Confirm(t1)"]), short(results["Cancel(t1)"]), short(results["Confirm(other)"]), short(results["Set(t2)"]), rollbacks, timerFired)
			return out, viol
		}
		return envs, main, finish
	}
}

func c16bScenarios(u *Universe) []schedScenario {
	sets := [][]string{
		{"Confirm(t1)"}, {"Cancel(t1)"},
		{"Confirm(t1)", "Cancel(t1)"},
		{"Confirm(t1)", "Set(t2)"}, {"Cancel(t1)", "Set(t2)"},
		{"Confirm(t1)", "Confirm(other)"},
	}
	if Tier() == "thorough" {
		sets = append(sets, []string{"Confirm(t1)", "Cancel(t1)", "Set(t2)"}, []string{"Cancel(t1)", "Confirm(other)", "Set(t2)"}, []string{"Set(t2)"})
	}
	var scs []schedScenario
	for _, s := range sets {
		scs = append(scs, schedScenario{"B: " + strings.Join(s, " || "), c16DatastoreScenario(u, s)})
	}
	return scs
}
