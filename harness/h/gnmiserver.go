package h

import (
	"context"
	"fmt"
	"net"
	"sort"
	"strconv"
	"strings"
	"sync"

	"github.com/openconfig/gnmi/proto/gnmi"
	dconfig "github.com/sdcio/data-server/pkg/config"
	"github.com/sdcio/data-server/pkg/datastore/target"
	sdcpb "github.com/sdcio/sdc-protos/sdcpb"
	"google.golang.org/grpc"
	"google.golang.org/grpc/metadata"
)

// gnmiFake is an in-process gNMI server on the loopback interface. It records the SetRequests per user name: every
// world dials it through the production gnmiTarget (target.New) with its own user name, so that one server serves
// all worlds of a process.
type gnmiFake struct {
	gnmi.UnimplementedGNMIServer
	mu   sync.Mutex
	reqs map[string][]*gnmi.SetRequest
	addr string
	port uint32
}

var (
	gnmiFakeOnce sync.Once
	gnmiFakeInst *gnmiFake
	gnmiFakeErr  error
)

func theGNMIFake() (*gnmiFake, error) {
	gnmiFakeOnce.Do(func() {
		l, err := net.Listen("tcp", "127.0.0.1:0")
		if err != nil {
			gnmiFakeErr = err
			return
		}
		host, port, _ := net.SplitHostPort(l.Addr().String())
		p, _ := strconv.Atoi(port)
		s := &gnmiFake{reqs: map[string][]*gnmi.SetRequest{}, addr: host, port: uint32(p)}
		srv := grpc.NewServer()
		gnmi.RegisterGNMIServer(srv, s)
		go func() { _ = srv.Serve(l) }()
		gnmiFakeInst = s
	})
	return gnmiFakeInst, gnmiFakeErr
}

func (s *gnmiFake) Capabilities(ctx context.Context, _ *gnmi.CapabilityRequest) (*gnmi.CapabilityResponse, error) {
	return &gnmi.CapabilityResponse{SupportedEncodings: []gnmi.Encoding{gnmi.Encoding_JSON, gnmi.Encoding_JSON_IETF, gnmi.Encoding_PROTO, gnmi.Encoding_ASCII}, GNMIVersion: "0.8.0"}, nil
}

func (s *gnmiFake) Set(ctx context.Context, req *gnmi.SetRequest) (*gnmi.SetResponse, error) {
	user := ""
	if md, ok := metadata.FromIncomingContext(ctx); ok {
		if v := md.Get("username"); len(v) > 0 {
			user = v[0]
		}
	}
	s.mu.Lock()
	s.reqs[user] = append(s.reqs[user], req)
	s.mu.Unlock()
	rsp := &gnmi.SetResponse{Timestamp: 1}
	for _, d := range req.GetDelete() {
		rsp.Response = append(rsp.Response, &gnmi.UpdateResult{Path: d, Op: gnmi.UpdateResult_DELETE})
	}
	for _, u := range req.GetUpdate() {
		rsp.Response = append(rsp.Response, &gnmi.UpdateResult{Path: u.GetPath(), Op: gnmi.UpdateResult_UPDATE})
	}
	return rsp, nil
}

func (s *gnmiFake) take(user string) []*gnmi.SetRequest {
	s.mu.Lock()
	defer s.mu.Unlock()
	return append([]*gnmi.SetRequest{}, s.reqs[user]...)
}

func (s *gnmiFake) forget(user string) {
	s.mu.Lock()
	delete(s.reqs, user)
	s.mu.Unlock()
}

// gnmiTee is the southbound target of a world: the recording device (reference: proto denotation, renderings) and,
// after it, the production gnmiTarget connected to the fake server with the given encoding.
type gnmiTee struct {
	*Device
	g        target.Target
	srv      *gnmiFake
	user     string
	Encoding string
	SetErrs  []error
}

func newGNMITee(w *World, encoding string) (*gnmiTee, error) {
	srv, err := theGNMIFake()
	if err != nil {
		return nil, err
	}
	user := w.Name + "-" + encoding
	pw := "x"
	_ = pw
	sbi := &dconfig.SBI{Type: "gnmi", Address: srv.addr, Port: srv.port,
		Credentials: &dconfig.Creds{Username: user, Password: "x"},
		GnmiOptions: &dconfig.SBIGnmiOptions{Encoding: encoding}}
	g, err := target.New(context.Background(), w.Name, sbi, w.DS.VerifSchemaClient())
	if err != nil {
		return nil, fmt.Errorf("gnmi target: %w", err)
	}
	return &gnmiTee{Device: w.Dev, g: g, srv: srv, user: user, Encoding: encoding}, nil
}

func (t *gnmiTee) Set(ctx context.Context, source target.TargetSource) (*sdcpb.SetDataResponse, error) {
	rsp, err := t.Device.Set(ctx, source)
	if err != nil {
		return rsp, err
	}
	_, gerr := t.g.Set(ctx, source)
	t.SetErrs = append(t.SetErrs, gerr)
	return rsp, err
}

func (t *gnmiTee) Close() error {
	t.srv.forget(t.user)
	return t.g.Close()
}

// CloseForWorld is called by World.Close.
func (t *gnmiTee) CloseForWorld() { _ = t.Close() }

func (t *gnmiTee) Requests() []*gnmi.SetRequest { return t.srv.take(t.user) }

// canonGNMIValue renders a gNMI typed value canonically (like CanonTV for sdcpb values).
func canonGNMIValue(v *gnmi.TypedValue) string {
	if v == nil {
		return "<nil>"
	}
	switch x := v.GetValue().(type) {
	case nil:
		return "<nil>"
	case *gnmi.TypedValue_StringVal:
		return x.StringVal
	case *gnmi.TypedValue_IntVal:
		return fmt.Sprintf("%d", x.IntVal)
	case *gnmi.TypedValue_UintVal:
		return fmt.Sprintf("%d", x.UintVal)
	case *gnmi.TypedValue_BoolVal:
		return fmt.Sprintf("%t", x.BoolVal)
	case *gnmi.TypedValue_BytesVal:
		return fmt.Sprintf("bytes:%x", x.BytesVal)
	case *gnmi.TypedValue_LeaflistVal:
		var els []string
		for _, e := range x.LeaflistVal.GetElement() {
			els = append(els, canonGNMIValue(e))
		}
		return LL(els...)
	}
	return fmt.Sprintf("?%T", v.GetValue())
}

// gnmiToSdcpbPath converts a gNMI path (prefix + path).
func gnmiToSdcpbPath(prefix, p *gnmi.Path) *sdcpb.Path {
	r := &sdcpb.Path{}
	for _, src := range []*gnmi.Path{prefix, p} {
		for _, e := range src.GetElem() {
			pe := &sdcpb.PathElem{Name: e.GetName()}
			if len(e.GetKey()) > 0 {
				pe.Key = map[string]string{}
				for k, v := range e.GetKey() {
					pe.Key[k] = v
				}
			}
			r.Elem = append(r.Elem, pe)
		}
	}
	return r
}

// c10FromGNMI interprets a SetRequest as sent by gnmiTarget.Set.
func (u *Universe) c10FromGNMI(req *gnmi.SetRequest) *c10Denot {
	d := newC10Denot()
	for _, del := range req.GetDelete() {
		sp := gnmiToSdcpbPath(req.GetPrefix(), del)
		for _, pe := range sp.GetElem() {
			if pe.GetName() == "" {
				d.Problems = append(d.Problems, "nameless-element: delete path with an empty element name: "+CanonPath(sp))
			}
		}
		d.Deletes[CanonPath(sp)] = true
		d.Paths[CanonPath(sp)] = sp
	}
	if len(req.GetReplace()) > 0 {
		d.Problems = append(d.Problems, "replace: the request carries replace operations")
	}
	for _, up := range req.GetUpdate() {
		sp := gnmiToSdcpbPath(req.GetPrefix(), up.GetPath())
		switch v := up.GetVal().GetValue().(type) {
		case *gnmi.TypedValue_JsonVal, *gnmi.TypedValue_JsonIetfVal:
			ietf := false
			var raw []byte
			if j, ok := v.(*gnmi.TypedValue_JsonIetfVal); ok {
				ietf, raw = true, j.JsonIetfVal
			} else {
				raw = v.(*gnmi.TypedValue_JsonVal).JsonVal
			}
			doc, err := ParseJSONBytes(raw)
			if err != nil {
				d.Problems = append(d.Problems, "json-unparsable: "+err.Error())
				continue
			}
			var jd *c10Denot
			if len(sp.GetElem()) == 0 {
				jd = u.c10FromJSON(doc, ietf)
			} else {
				// a JSON value at an inner node (gnmiTarget sends key leaves this way: {"<key>": "<value>"} at the entry)
				jd = u.c10FromJSONAt(doc, ietf, sp)
			}
			d.Problems = append(d.Problems, jd.Problems...)
			for c, v := range jd.Leaves {
				d.Leaves[c] = v
				d.Paths[c] = jd.Paths[c]
			}
			for e := range jd.Entries {
				d.Entries[e] = true
				d.Paths[e] = jd.Paths[e]
			}
		default:
			for _, pe := range sp.GetElem() {
				if pe.GetName() == "" {
					d.Problems = append(d.Problems, "nameless-element: update path with an empty element name: "+CanonPath(sp))
				}
			}
			d.addEntries(sp)
			if keyLeafOf(sp) {
				continue
			}
			c := CanonPath(sp)
			val := canonGNMIValue(up.GetVal())
			// an empty leaf / presence container travels without a value
			if ni, err := u.Node(keylessOf(sp)); err == nil && val == "<nil>" {
				if (ni.se.GetContainer() != nil && ni.se.GetContainer().GetIsPresence()) || (ni.leafType() != nil && ni.leafType().GetType() == "empty") {
					val = "<empty>"
				}
			}
			d.Leaves[c] = val
			d.Paths[c] = sp
		}
	}
	return d
}

func keylessOf(p *sdcpb.Path) []string {
	var r []string
	for _, e := range p.GetElem() {
		r = append(r, e.GetName())
	}
	return r
}

// C10GNMIChecker: what the production gnmiTarget sends for a change denotes the same change as the proto view.
type C10GNMIChecker struct{ Encoding string }

func (c C10GNMIChecker) Check(s *Step) []*Violation {
	var vs []*Violation
	tee, ok := s.W.Target.(*gnmiTee)
	if !ok {
		return []*Violation{{Clause: "harness", Sig: "harness:no-gnmi-tee", Detail: "world without gnmi tee target"}}
	}
	u := s.W.U
	kind := opKinds(s.Op)
	add := func(clause, where, detail string) {
		vs = append(vs, &Violation{Clause: clause, Sig: clause + ":gnmi-" + c.Encoding + ":" + where + ":" + kind, Detail: detail})
	}
	calls := s.W.Dev.Calls
	reqs := tee.Requests()
	if len(reqs) != len(calls) || len(tee.SetErrs) != len(calls) {
		add("gnmi-call-count", "calls", fmt.Sprintf("the recording device saw %d Set calls, the gNMI server %d requests", len(calls), len(reqs)))
		return vs
	}
	pre := s.Pre.Device
	prePaths := s.W.Dev.PathsEverHeld()
	for i := len(calls) - s.Out.DevCalls; i < len(calls); i++ {
		r := calls[i].R
		if r == nil {
			continue
		}
		if tee.SetErrs[i] != nil {
			add("gnmi-set-error", "set", "gnmiTarget.Set failed: "+tee.SetErrs[i].Error())
			continue
		}
		ref := c10FromProto(r.ProtoUpdates, r.ProtoDeletes)
		want := ref.effect(u, pre, prePaths)
		d := u.c10FromGNMI(reqs[i])
		for _, p := range d.Problems {
			clause := "json-malformed"
			for _, k := range []string{"nameless-element", "replace", "json-unparsable", "json-shape", "unknown-element"} {
				if strings.HasPrefix(p, k+":") {
					clause = k
				}
			}
			add("gnmi-"+clause, SchemaClass(p), p)
		}
		if got := d.effect(u, pre, prePaths); mapKey(got) != mapKey(want) {
			add("gnmi-differs", c10EffectClass(want, got), fmt.Sprintf("the SetRequest sent by gnmiTarget (%s) and the proto view denote different changes; resulting configuration\nonly with proto: %s\nonly with gnmi: %s\nrequest: %s", c.Encoding, diffMaps(got, want), diffMaps(want, got), firstLines(reqs[i].String(), 12)))
		}
		pre = want
	}
	return vs
}

// c10FromJSONAt interprets a JSON object that is the content of the node at sp.
func (u *Universe) c10FromJSONAt(doc any, ietf bool, sp *sdcpb.Path) *c10Denot {
	d := newC10Denot()
	m, ok := doc.(map[string]any)
	if !ok {
		d.Problems = append(d.Problems, fmt.Sprintf("json-shape: value at %s is %T, not an object", CanonPath(sp), doc))
		return d
	}
	ni, err := u.Node(keylessOf(sp))
	if err != nil {
		d.Problems = append(d.Problems, "unknown-element: "+CanonPath(sp))
		return d
	}
	var path Path
	for _, e := range sp.GetElem() {
		pe := PE{Name: e.GetName()}
		ks := make([]string, 0, len(e.GetKey()))
		for k := range e.GetKey() {
			ks = append(ks, k)
		}
		sort.Strings(ks)
		for _, k := range ks {
			pe.Keys = append(pe.Keys, [2]string{k, e.GetKey()[k]})
		}
		path = append(path, pe)
	}
	leaves := map[string]string{}
	var problems []string
	u.jsonContainer(m, keylessOf(sp), path, ni.module, ietf, leaves, &problems)
	paths := map[string]Path{}
	u.jsonPaths(m, keylessOf(sp), path, paths)
	d.Problems = problems
	d.addEntries(sp)
	for c, v := range leaves {
		pp, ok := paths[c]
		if !ok {
			continue
		}
		lp := pp.Sdcpb()
		d.addEntries(lp)
		if keyLeafOf(lp) {
			continue
		}
		d.Leaves[c] = v
		d.Paths[c] = lp
	}
	return d
}
