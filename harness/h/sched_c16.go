//go:build verifsched

package h

import (
	"context"
	"fmt"
	"sort"
	"strings"
	"time"

	dtypes "github.com/sdcio/data-server/pkg/datastore/types"
	"github.com/sdcio/data-server/pkg/verifrt"
	sdcpb "github.com/sdcio/sdc-protos/sdcpb"
)

// C16: confirm, cancel and timeout resolve each transaction exactly once.

// recRollbacker records rollback applications; the rollback itself has internal scheduling points.
type recRollbacker struct {
	calls []string
	fail  bool
}

func (r *recRollbacker) TransactionRollback(ctx context.Context, tr *dtypes.Transaction, dryRun bool) (*sdcpb.TransactionSetResponse, error) {
	verifrt.YieldPoint("rollback-begin")
	r.calls = append(r.calls, tr.GetTransactionId())
	verifrt.YieldPoint("rollback-end")
	if r.fail {
		return nil, fmt.Errorf("rollback failed")
	}
	return &sdcpb.TransactionSetResponse{}, nil
}

type c16Op struct {
	Name string
	Run  func(tm *dtypes.TransactionManager) error
}

func c16Ops() []c16Op {
	return []c16Op{
		{"Confirm(t1)", func(tm *dtypes.TransactionManager) error { return tm.Confirm("t1") }},
		{"Cancel(t1)", func(tm *dtypes.TransactionManager) error { return tm.Cancel(context.Background(), "t1") }},
		{"Confirm(other)", func(tm *dtypes.TransactionManager) error { return tm.Confirm("other") }},
		{"Cancel(other)", func(tm *dtypes.TransactionManager) error { return tm.Cancel(context.Background(), "other") }},
		{"Register(t2)", func(tm *dtypes.TransactionManager) error {
			_, err := tm.RegisterTransaction(context.Background(), dtypes.NewTransaction("t2", tm))
			return err
		}},
	}
}

// c16ManagerScenario: an applied transaction t1 with an armed rollback timer, then the given ops concurrently.
func c16ManagerScenario(ops []c16Op) verifrt.Scenario {
	return func() ([]*verifrt.EnvEvent, func(), func(*verifrt.Result) (string, []string)) {
		rb := &recRollbacker{}
		results := make([]string, len(ops))
		errs := make([]error, len(ops))
		var tm *dtypes.TransactionManager
		main := func() {
			tm = dtypes.NewTransactionManager(rb)
			tr := dtypes.NewTransaction("t1", tm)
			tr.SetTimeout(time.Second)
			guard, err := tm.RegisterTransaction(context.Background(), tr)
			if err != nil {
				panic("setup: " + err.Error())
			}
			_ = tr.AddIntentContent("A", dtypes.TransactionIntentOld, 10, nil)
			if err := tr.StartRollbackTimer(); err != nil {
				panic("setup: " + err.Error())
			}
			guard.Success()
			guard.Done()
			var wg verifrt.WGState
			wg.Add(len(ops))
			for i, o := range ops {
				i, o := i, o
				verifrt.Go(o.Name, func() {
					defer wg.Done()
					errs[i] = o.Run(tm)
					if errs[i] == nil {
						results[i] = "ok"
					} else {
						results[i] = "err"
					}
				})
			}
			wg.Wait()
		}
		finish := func(res *verifrt.Result) (string, []string) {
			viol := append(resultProblems(res), raceProblems(res)...)
			timerFired := false
			for _, p := range res.Points {
				c := p.Enabled[p.Chosen]
				if c.Thread < 0 && strings.HasPrefix(c.Env, "timer#") {
					timerFired = true
				}
			}
			rollbacks := len(rb.calls)
			confirmOK, cancelOK := false, false
			for i, o := range ops {
				switch {
				case o.Name == "Confirm(t1)" && results[i] == "ok":
					confirmOK = true
				case o.Name == "Cancel(t1)" && results[i] == "ok":
					cancelOK = true
				case strings.Contains(o.Name, "(other)") && results[i] == "ok":
					viol = append(viol, "wrong-id-accepted: "+o.Name+" returned success")
				}
			}
			if res.Panic == "" && !res.Deadlock && !res.Horizon {
				if rollbacks > 1 {
					viol = append(viol, fmt.Sprintf("rolled-back-more-than-once: %d rollbacks applied: %v", rollbacks, rb.calls))
				}
				if confirmOK && rollbacks > 0 {
					viol = append(viol, fmt.Sprintf("confirmed-but-rolled-back: Confirm(t1) returned success and %d rollback(s) were applied", rollbacks))
				}
				if cancelOK && rollbacks != 1 {
					viol = append(viol, fmt.Sprintf("cancelled-without-single-rollback: Cancel(t1) returned success, %d rollbacks applied", rollbacks))
				}
				if confirmOK && cancelOK {
					viol = append(viol, "confirm-and-cancel-both-succeeded")
				}
				if !confirmOK && !cancelOK && timerFired && rollbacks != 1 {
					viol = append(viol, fmt.Sprintf("expired-without-single-rollback: the timer fired, neither Confirm nor Cancel succeeded, %d rollbacks applied", rollbacks))
				}
				id, armed := tm.VerifOpenTransaction()
				resolved := confirmOK || cancelOK || (timerFired && rollbacks > 0)
				registeredT2 := false
				for i, o := range ops {
					if o.Name == "Register(t2)" && results[i] == "ok" {
						registeredT2 = true
					}
				}
				if resolved && id == "t1" {
					viol = append(viol, "slot-not-released: t1 is resolved but still registered")
				}
				if !resolved && id != "t1" {
					viol = append(viol, fmt.Sprintf("slot-lost: t1 is neither confirmed, cancelled nor expired but the slot holds %q", id))
				}
				if !resolved && !armed && id == "t1" {
					viol = append(viol, "timer-disarmed: t1 is still open but its rollback timer is no longer armed")
				}
				if registeredT2 && !resolved {
					viol = append(viol, "second-transaction-registered-while-open")
				}
				// the timer of a resolved transaction must not remain armed: fire it at the end (environment event of
				// the runtime is still available) is covered by the exploration itself (timer events stay enabled)
			}
			rs := append([]string{}, results...)
			sort.Strings(rs)
			out := fmt.Sprintf("results=%v rollbacks=%d fired=%v", results, rollbacks, timerFired)
			if res.Panic != "" {
				out += " PANIC"
			}
			if res.Deadlock {
				out += " DEADLOCK"
			}
			return out, viol
		}
		return nil, main, finish
	}
}

func c16Scenarios() []schedScenario {
	ops := c16Ops()
	var scs []schedScenario
	// every multiset of up to three operations (order is irrelevant: they run concurrently)
	n := len(ops)
	for a := 0; a < n; a++ {
		scs = append(scs, schedScenario{ops[a].Name, c16ManagerScenario([]c16Op{ops[a]})})
		for b := a; b < n; b++ {
			scs = append(scs, schedScenario{ops[a].Name + " || " + ops[b].Name, c16ManagerScenario([]c16Op{ops[a], ops[b]})})
			if Tier() == "thorough" {
				for c := b; c < n; c++ {
					scs = append(scs, schedScenario{ops[a].Name + " || " + ops[b].Name + " || " + ops[c].Name, c16ManagerScenario([]c16Op{ops[a], ops[b], ops[c]})})
				}
			}
		}
	}
	if Tier() != "thorough" {
		// a selection of three-operation scenarios for the quick tier
		pick := [][3]int{{0, 1, 4}, {0, 0, 1}, {1, 1, 0}, {0, 2, 3}, {1, 2, 4}}
		for _, p := range pick {
			scs = append(scs, schedScenario{ops[p[0]].Name + " || " + ops[p[1]].Name + " || " + ops[p[2]].Name, c16ManagerScenario([]c16Op{ops[p[0]], ops[p[1]], ops[p[2]]})})
		}
	}
	return scs
}

func runC16() int {
	rep := NewReporter("C16", "model_checking")
	rep.Assumptions = []string{
		"pkg/datastore/types and pkg/datastore are rebuilt from the working tree by the instrumenter: every sync.Mutex/RWMutex/WaitGroup operation, go statement, channel operation, select and time.NewTimer/Sleep goes through the cooperative scheduler; interleavings are enumerated at that granularity under sequential consistency",
		"timer expiry is an environment event (deviation); the rollback applied by the recording rollbacker has two internal scheduling points",
	}
	pb, db := 2, 2
	if Tier() == "thorough" {
		pb, db = 3, 2
	}
	sigOf := func(scn, v string, x *verifrt.Execution) string {
		clause := strings.SplitN(v, ":", 2)[0]
		if clause == "panic" {
			clause = strings.Join(strings.SplitN(v, ":", 3)[:2], "@")
		}
		if clause == "data-race" {
			// the pair of access sites identifies the race
			return "data-race:" + strings.TrimSpace(strings.SplitN(strings.SplitN(v, ":", 2)[1], " [", 2)[0])
		}
		return clause + ":" + scn
	}
	// harness A (manager level) and harness B (datastore level) in worker processes (the scheduler is a process-wide
	// singleton); every exploration tree is split over the workers
	u, err := LoadUniverse()
	if err != nil {
		return fail(err)
	}
	defer c16bCache.Close()
	scs := c16Scenarios()
	for _, b := range c16bScenarios(u) {
		scenarioPB[b.Name] = pbB()
		scenarioDB[b.Name] = pbB()
		scs = append(scs, b)
	}
	shardByBranch = true
	tot, code := exploreSharded(rep, "C16", scs, pb, db, 20000, deadlineFor(10*time.Minute, 75*time.Minute), sigOf)
	if code != 0 {
		return code
	}
	return rep.Finish(tot.coverage(map[string]any{"harness": "A: TransactionManager level with a recording rollbacker; B: Datastore level (real cache, recording device, real rollback)", "preemption_bound_harness_B": pbB()}))
}

func deadlineFor(q, t time.Duration) time.Duration {
	if Tier() == "thorough" {
		return t
	}
	return q
}

func init() {
	Checks["C16"] = func([]string) int { return runC16() }
}

func pbB() int {
	if Tier() == "thorough" {
		return 2
	}
	return 1
}
