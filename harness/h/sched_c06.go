//go:build verifsched

package h

import (
	"context"
	"errors"
	"fmt"
	"github.com/sdcio/cache/proto/cachepb"
	"github.com/sdcio/data-server/pkg/cache"
	"github.com/sdcio/data-server/pkg/utils"
	"os"
	"strings"
	"sync"
	"time"

	dtypes "github.com/sdcio/data-server/pkg/datastore/types"
	"github.com/sdcio/data-server/pkg/verifrt"
	sdcpb "github.com/sdcio/sdc-protos/sdcpb"
)

// C06: transactions are exclusive, id-scoped and never wedge the datastore. All API sequences up to a bounded
// length, executed on the instrumented build so that "wait for the timeout" is a virtual-time event.

type c06Op struct {
	Kind string // set-valid set-warn (valid, with a validation warning) set-invalid set-dry set-deverr confirm cancel wait
	ID   string
}

func (o c06Op) String() string {
	if o.Kind == "wait" {
		return "WaitTimeout"
	}
	if o.Kind == "wait-deverr" {
		return "WaitTimeout(device refuses the rollback)"
	}
	return o.Kind + "(" + o.ID + ")"
}

func c06Alphabet() []c06Op {
	var ops []c06Op
	for _, k := range []string{"set-valid", "set-same", "set-warn", "set-invalid", "set-badrun", "set-dry", "set-deverr"} {
		for _, id := range []string{"t1", "t2"} {
			ops = append(ops, c06Op{k, id})
		}
	}
	for _, k := range []string{"confirm", "cancel"} {
		for _, id := range []string{"t1", "t2", "stale"} {
			ops = append(ops, c06Op{k, id})
		}
	}
	// wait-deverr: the timeout elapses while the device refuses the Set of the automatic rollback
	return append(ops, c06Op{"wait", ""}, c06Op{"wait-deverr", ""})
}

// c06Run executes one sequence in a fresh world inside the controlled runtime and returns the violations.
func c06Run(u *Universe, wc *WorkerCache, seq []c06Op) (viol []string, outcome string, res *verifrt.Result) {
	frags := mergeFrags(CoreFragments(), ConstraintFragments())
	var log []string
	main := func() {
		cc, err := wc.Get()
		if err != nil {
			panic("harness: " + err.Error())
		}
		w, err := NewWorld(u, cc, nil, WorldOpts{Fragments: frags})
		if err != nil {
			panic("harness: " + err.Error())
		}
		defer w.Close()
		open := "" // reference machine: id of the open transaction
		flip := 0  // alternates the valid content so that every valid Set changes the device
		add := func(clause string, op c06Op, detail string) {
			st := "idle"
			if open != "" {
				st = "open"
			}
			viol = append(viol, fmt.Sprintf("%s:%s:%s: %s (sequence %v)", clause, op.Kind, st, detail, seq))
		}
		doSet := func(id, kind string) (*sdcpb.TransactionSetResponse, error, bool) {
			fr := []string{"fa", "fb"}[flip%2]
			dry := false
			if kind == "set-same" && flip > 0 {
				fr = []string{"fa", "fb"}[(flip-1)%2] // the content of the last accepted transaction again: an empty change
			}
			badRun := leafLL([]string{"a", "b", "c", "d"}, "sys", "dns") // max-elements 3: invalid, and no intent of this check touches it
			switch kind {
			case "set-badrun":
				// the running configuration holds a value that violates the schema (the device was configured by hand):
				// the validation error of this otherwise valid transaction belongs to an owner outside the request
				if err := w.PreloadStore(cachepb.Store_CONFIG, []Leaf{badRun}); err != nil {
					panic("harness: " + err.Error())
				}
				defer func() {
					_ = w.Raw.Modify(context.Background(), w.Name, &cache.Opts{Store: cachepb.Store_CONFIG}, [][]string{utils.ToStrings(badRun.P.Sdcpb(), false, false)}, nil)
				}()
			case "set-warn":
				fr = []string{"fw", "fw2"}[flip%2]
			case "set-invalid":
				fr = "iv-length"
			case "set-dry":
				dry = true
			case "set-deverr":
				w.Dev.FailCall[w.Dev.NumCalls()] = errors.New("verif: device rejects")
			}
			pi, _ := w.BuildIntent(IntentSpec{Owner: "A", Prio: 10, Frag: fr})
			ti, err := w.DS.SdcpbTransactionIntentToInternalTI(context.Background(), pi)
			if err != nil {
				return nil, err, true
			}
			ctx, cancel := context.WithCancel(context.Background())
			defer cancel()
			var rsp *sdcpb.TransactionSetResponse
			var serr error
			finished := false
			verifrt.Go("TransactionSet("+id+")", func() {
				rsp, serr = w.DS.TransactionSet(ctx, id, []*dtypes.TransactionIntent{ti}, nil, time.Second, dry)
				finished = true
			})
			verifrt.Quiesce()
			if !finished {
				// the request waits for the datastore: the client gives up
				cancel()
				verifrt.Quiesce()
			}
			delete(w.Dev.FailCall, w.Dev.NumCalls())
			return rsp, serr, finished
		}
		step := func(op c06Op) {
			devBefore := w.Dev.NumCalls()
			wantDev := 0
			anyDev := false
			switch op.Kind {
			case "set-valid", "set-same", "set-warn", "set-invalid", "set-badrun", "set-dry", "set-deverr":
				rsp, err, finished := doSet(op.ID, op.Kind)
				if !finished {
					add("set-never-returns", op, "TransactionSet did not return after its context was cancelled")
					return
				}
				hasErrs := false
				for _, ir := range rsp.GetIntents() {
					if len(ir.GetErrors()) > 0 {
						hasErrs = true
					}
				}
				if open != "" {
					if err == nil {
						add("second-set-admitted", op, fmt.Sprintf("TransactionSet(%s) succeeded while transaction %s is open", op.ID, open))
					}
					// nothing may change: checked through the device call count below
					break
				}
				switch op.Kind {
				case "set-valid", "set-warn":
					if err != nil || hasErrs {
						add("valid-set-refused", op, fmt.Sprintf("err=%v intentErrors=%v", err, hasErrs))
					} else {
						open = op.ID
						wantDev = 1
						flip++
					}
				case "set-same":
					if err != nil || hasErrs {
						add("valid-set-refused", op, fmt.Sprintf("err=%v intentErrors=%v", err, hasErrs))
					} else {
						open = op.ID
						anyDev = true // a transaction without a change may or may not be handed to the device
						if flip == 0 {
							flip++ // nothing was accepted before: this one created the content
						}
					}
				case "set-invalid":
					if err == nil && !hasErrs {
						add("invalid-set-accepted", op, "no error reported")
					}
				case "set-badrun":
					// whether the transaction is refused is C04's subject; here: refused = nothing happened, accepted = open
					if err == nil && !hasErrs {
						open = op.ID
						wantDev = 1
						flip++
					}
				case "set-deverr":
					wantDev = 1 // the attempt reaches the device and is refused there
					if err == nil {
						add("device-error-not-returned", op, "TransactionSet returned no error although the device refused")
					}
				}
			case "confirm":
				err := w.DS.TransactionConfirm(context.Background(), op.ID)
				if op.ID == open {
					if err != nil {
						add("confirm-refused", op, err.Error())
					} else {
						open = ""
					}
				} else if err == nil {
					add("wrong-id-accepted", op, fmt.Sprintf("TransactionConfirm(%s) succeeded, open transaction is %q", op.ID, open))
				}
			case "cancel":
				err := w.DS.TransactionCancel(context.Background(), op.ID)
				if op.ID == open {
					if err != nil {
						add("cancel-refused", op, err.Error())
					} else {
						open = ""
						wantDev = 1
					}
				} else if err == nil {
					add("wrong-id-accepted", op, fmt.Sprintf("TransactionCancel(%s) succeeded, open transaction is %q", op.ID, open))
				}
			case "wait":
				verifrt.FireTimers()
				verifrt.Quiesce()
				if open != "" {
					wantDev = 1
					open = ""
				}
			case "wait-deverr":
				w.Dev.FailCall[w.Dev.NumCalls()] = errors.New("verif: device rejects the rollback")
				verifrt.FireTimers()
				verifrt.Quiesce()
				delete(w.Dev.FailCall, w.Dev.NumCalls())
				if open != "" {
					// the rollback was attempted and refused; the transaction is resolved all the same (nobody is left to
					// repeat anything) and the datastore must accept new transactions
					wantDev = 1
					open = ""
				}
			}
			if got := w.Dev.NumCalls() - devBefore; got != wantDev && !(anyDev && got <= 1) {
				add("device-traffic", op, fmt.Sprintf("%d Set call(s) reached the device, expected %d", got, wantDev))
			}
			id, _ := w.DS.VerifOpenTransaction()
			log = append(log, fmt.Sprintf("%s/%q/dev+%d", op.Kind, id, w.Dev.NumCalls()-devBefore))
		}
		for _, op := range seq {
			step(op)
		}
		// liveness: after the transaction timeout, without any further help, a new transaction is admitted
		verifrt.FireTimers()
		verifrt.Quiesce()
		open = ""
		rsp, err, finished := doSet("fresh", "set-valid")
		hasErrs := false
		for _, ir := range rsp.GetIntents() {
			if len(ir.GetErrors()) > 0 {
				hasErrs = true
			}
		}
		if !finished || err != nil || hasErrs {
			last := seq[len(seq)-1]
			viol = append(viol, fmt.Sprintf("wedged:%s:after: after the sequence %v and the transaction timeout a new valid TransactionSet is not admitted (returned=%v err=%v)", last.Kind, seq, finished, err))
		} else {
			_ = w.DS.TransactionConfirm(context.Background(), "fresh")
		}
	}
	// sequential semantics: a thread continues whenever one can; timers fire only through FireTimers (wait-for-timeout)
	res = verifrt.Run(func(p *verifrt.Point) int {
		for i, c := range p.Enabled {
			if c.Thread >= 0 {
				return i
			}
		}
		return 0
	}, 20000, nil, main)
	viol = append(viol, resultProblems(res)...)
	viol = append(viol, raceProblems(res)...)
	if res.Horizon {
		viol = append(viol, "livelock:horizon: the sequence did not finish within 20000 scheduling points")
	}
	return viol, strings.Join(log, " "), res
}

func runC06() int {
	u, err := LoadUniverse()
	if err != nil {
		return fail(err)
	}
	rep := NewReporter("C06", "model_checking")
	rep.Assumptions = []string{
		"every API sequence up to the length bound is executed on the instrumented build (pkg/datastore, pkg/datastore/types) inside the cooperative scheduler: time is virtual, 'wait for the timeout' fires the rollback timer and runs the timer goroutine to quiescence; a TransactionSet that waits for the datastore is given up by cancelling its context",
		"one schedule per sequence (the default, non-preemptive one): interleavings are C16's subject",
	}
	alpha := c06Alphabet()
	maxLen := 3
	if Tier() == "thorough" {
		maxLen = 4
	}
	var seqs [][]c06Op
	var gen func(prefix []c06Op)
	gen = func(prefix []c06Op) {
		if len(prefix) > 0 {
			seqs = append(seqs, append([]c06Op{}, prefix...))
		}
		if len(prefix) == maxLen {
			return
		}
		for _, o := range alpha {
			gen(append(prefix, o))
		}
	}
	gen(nil)
	// the runtime is a process-wide singleton: sequences are sharded over worker subprocesses
	if len(os.Args) > 3 && os.Args[2] == "one" {
		var seq []c06Op
		for _, f := range strings.Split(os.Args[3], ",") {
			k, id, _ := strings.Cut(strings.TrimSuffix(f, ")"), "(")
			seq = append(seq, c06Op{k, id})
		}
		wc := NewWorkerCache()
		defer wc.Close()
		v, oc, res := c06Run(u, wc, seq)
		fmt.Println("violations:", v)
		fmt.Println("observed:", oc)
		for _, l := range verifrt.FormatTrace(res) {
			fmt.Println(l)
		}
		return 0
	}
	if len(os.Args) > 3 && os.Args[2] == "shard" {
		return c06Shard(u, seqs, os.Args[3], os.Args[4])
	}
	type shardOut struct {
		Executions int
		Points     int
		Outcomes   map[string]int
		Violations []*Violation
		Samples    []any
	}
	const shards = 16
	var mu sync.Mutex
	execs, points := 0, 0
	outcomes := map[string]int{}
	var samples []any
	var wg sync.WaitGroup
	failed := false
	for s := 0; s < shards; s++ {
		wg.Add(1)
		go func(s int) {
			defer wg.Done()
			var so shardOut
			if err := runShard("C06", fmt.Sprint(s), fmt.Sprint(shards), &so); err != nil {
				fmt.Fprintln(os.Stderr, "C06 shard:", err)
				mu.Lock()
				failed = true
				mu.Unlock()
				return
			}
			mu.Lock()
			execs += so.Executions
			points += so.Points
			for k, n := range so.Outcomes {
				outcomes[k] += n
			}
			for _, v := range so.Violations {
				rep.Add(v)
			}
			if len(samples) < 6 {
				samples = append(samples, so.Samples...)
			}
			mu.Unlock()
		}(s)
	}
	wg.Wait()
	if failed {
		return 2
	}
	if len(samples) > 6 {
		samples = samples[:6]
	}
	return rep.Finish(map[string]any{
		"states":                        len(outcomes),
		"transitions":                   points,
		"traces_validated_against_impl": execs,
		"executions":                    execs,
		"sequences":                     len(seqs),
		"max_sequence_length":           maxLen,
		"alphabet":                      fmt.Sprint(alpha),
		"distinct_outcomes":             len(outcomes),
		"samples":                       samples,
		"exhaustive":                    execs == len(seqs),
		"explanation":                   "all API sequences up to max_sequence_length over the printed alphabet; 'states' counts distinct observed open-transaction traces, 'transitions' scheduling points executed",
	})
}

func c06Shard(u *Universe, seqs [][]c06Op, shard, of string) int {
	var s, n int
	fmt.Sscan(shard, &s)
	fmt.Sscan(of, &n)
	wc := NewWorkerCache()
	defer wc.Close()
	out := map[string]any{}
	execs, points := 0, 0
	outcomes := map[string]int{}
	var viols []*Violation
	var samples []any
	sigCount := map[string]int{}
	for i, seq := range seqs {
		if i%n != s {
			continue
		}
		v, oc, res := c06Run(u, wc, seq)
		execs++
		points += len(res.Points)
		outcomes[oc]++
		for _, x := range v {
			parts := strings.SplitN(x, ":", 4)
			sig := strings.Join(parts[:min(3, len(parts))], ":")
			sigCount[sig]++
			if sigCount[sig] > 3 {
				continue
			}
			viols = append(viols, &Violation{Clause: parts[0], Sig: sig, Detail: x, Engine: "E4-sched", Case: map[string]any{"sequence": fmt.Sprint(seq)}})
		}
		if len(samples) < 2 && len(seq) == 3 {
			samples = append(samples, map[string]any{"sequence": fmt.Sprint(seq), "observed": oc})
		}
	}
	out["Executions"], out["Points"], out["Outcomes"], out["Violations"], out["Samples"] = execs, points, outcomes, viols, samples
	return writeShardResult(out)
}

func init() {
	Checks["C06"] = func([]string) int { return runC06() }
}
