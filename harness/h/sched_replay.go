//go:build verifsched

package h

import (
	"fmt"

	"github.com/sdcio/data-server/pkg/verifrt"
)

// scenario lists per property for `replay` of E4 cases
func schedScenariosOf(prop string) ([]schedScenario, int, error) {
	u, err := LoadUniverse()
	if err != nil {
		return nil, 0, err
	}
	switch prop {
	case "C16":
		return append(c16Scenarios(), c16bScenarios(u)...), 20000, nil
	case "C19":
		return c19Scenarios(u), 4000, nil
	case "C13":
		return c13Scenarios(u), 4000, nil
	case "C17":
		var scs []schedScenario
		for _, sc := range c17Scenarios() {
			sc := sc
			var w *World
			var out *Outcome
			res := verifrt.Run(func(p *verifrt.Point) int { return 0 }, 200000, nil, func() {
				var err error
				w, out, err = c17Run(u, sc, false)
				if err != nil {
					panic("harness: " + err.Error())
				}
			})
			if res.Panic != "" || w == nil || out == nil {
				return nil, 0, fmt.Errorf("reference run of %s failed: %s", sc.Name, res.Panic)
			}
			scs = append(scs, schedScenario{sc.Name, c17Sched(u, sc, c17Verdict(w, out))})
		}
		return scs, 200000, nil
	}
	return nil, 0, fmt.Errorf("no scheduler scenarios for %s", prop)
}

func init() {
	replaySchedFn = func(prop, scenario string, choices []int) (string, []string, error) {
		scs, steps, err := schedScenariosOf(prop)
		if err != nil {
			return "", nil, err
		}
		for _, sc := range scs {
			if sc.Name != scenario {
				continue
			}
			x, err := verifrt.RunOnce(sc.Sc, choices, steps, nil)
			if err != nil {
				return "", nil, err
			}
			return x.Outcome, x.Violations, nil
		}
		return "", nil, fmt.Errorf("unknown scenario %q of %s (tier dependent scenarios: set VERIF_TIER as in the run that wrote the file)", scenario, prop)
	}
}
