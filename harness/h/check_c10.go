package h

import (
	"encoding/base64"
	"fmt"
	"sort"
	"strings"

	"github.com/beevik/etree"
	"github.com/sdcio/data-server/pkg/datastore/target"
	sdcpb "github.com/sdcio/sdc-protos/sdcpb"
)

// C10: all southbound encodings describe the same change.
//
// E1 plug-in: on every transition of the history search the recording device calls the four TargetSource views
// (proto updates / deletes, JSON, JSON_IETF, XML with the 8 option combinations, each with onlyNewOrUpdated
// true and false) on the same tree instance. Each rendering is interpreted by a schema-guided walker into
// (leaf values, list entries, deleted subtrees); all must denote the same sets, and the XML documents must be
// well formed in the sense of the property (namespaces, keys first in key-statement order, element names,
// delete / remove operation).

const ncBaseNS = "urn:ietf:params:xml:ns:netconf:base:1.0"

// denotation of one rendering
type c10Denot struct {
	Leaves   map[string]string // non-key leaves, presence containers (<empty>)
	Entries  map[string]bool   // list entries that exist in the rendering
	Deletes  map[string]bool   // deleted subtrees
	Paths    map[string]*sdcpb.Path
	Problems []string
}

func newC10Denot() *c10Denot {
	return &c10Denot{Leaves: map[string]string{}, Entries: map[string]bool{}, Deletes: map[string]bool{}, Paths: map[string]*sdcpb.Path{}}
}

// withPresence adds every presence container that is an ancestor of an existing node: a presence container
// exists as soon as something below it was written and stays until it is deleted itself.
func (u *Universe) withPresence(cfg map[string]string, paths map[string]*sdcpb.Path) {
	for c := range cfg {
		p := paths[c]
		if p == nil {
			continue
		}
		var keyless []string
		for i, pe := range p.GetElem() {
			keyless = append(keyless, pe.GetName())
			if i == len(p.GetElem())-1 {
				break
			}
			ni, err := u.Node(keyless)
			if err != nil || ni.se.GetContainer() == nil || !ni.se.GetContainer().GetIsPresence() {
				continue
			}
			pp := &sdcpb.Path{Elem: p.GetElem()[:i+1]}
			if _, ok := cfg[CanonPath(pp)]; !ok {
				cfg[CanonPath(pp)] = "<empty>"
				paths[CanonPath(pp)] = pp
			}
		}
	}
}

// effect applies the denoted change to a device configuration: deletes first, then the leaf writes and the key
// leaves of every list entry that occurs.
func (d *c10Denot) effect(u *Universe, pre map[string]string, prePaths map[string]*sdcpb.Path) map[string]string {
	start := map[string]string{}
	paths := map[string]*sdcpb.Path{}
	for c, v := range pre {
		start[c] = v
		paths[c] = prePaths[c]
	}
	u.withPresence(start, paths)
	post := map[string]string{}
	for c, v := range start {
		deleted := false
		for dc := range d.Deletes {
			if pp, dp := paths[c], d.Paths[dc]; pp != nil && dp != nil && PathHasPrefix(pp, dp) {
				deleted = true
				break
			}
		}
		if !deleted {
			post[c] = v
		}
	}
	for c, v := range d.Leaves {
		post[c] = v
		paths[c] = d.Paths[c]
	}
	for e := range d.Entries {
		ep := d.Paths[e]
		if ep == nil {
			continue
		}
		last := ep.GetElem()[len(ep.GetElem())-1]
		for k, v := range last.GetKey() {
			kp := &sdcpb.Path{Elem: append(append([]*sdcpb.PathElem{}, ep.GetElem()...), &sdcpb.PathElem{Name: k})}
			post[CanonPath(kp)] = v
			paths[CanonPath(kp)] = kp
		}
	}
	// YANG choice semantics of the device (RFC 7950 7.9): creating a node of one case deletes the nodes of the
	// other cases of that choice
	written := map[string]bool{}
	for c := range d.Leaves {
		written[c] = true
	}
	for w := range written {
		for _, ws := range choiceSlots(w) {
			for q := range post {
				if written[q] {
					continue
				}
				for _, qs := range choiceSlots(q) {
					if qs.key() == ws.key() && qs.cas != ws.cas {
						delete(post, q)
					}
				}
			}
		}
	}
	u.withPresence(post, paths)
	return post
}

func (d *c10Denot) key(withDeletes bool) string {
	var sb strings.Builder
	sb.WriteString(mapKey(d.Leaves))
	es := make([]string, 0, len(d.Entries))
	for e := range d.Entries {
		es = append(es, e)
	}
	sort.Strings(es)
	sb.WriteString("\nentries: " + strings.Join(es, " "))
	if withDeletes {
		ds := make([]string, 0, len(d.Deletes))
		for e := range d.Deletes {
			ds = append(ds, e)
		}
		sort.Strings(ds)
		sb.WriteString("\ndeletes: " + strings.Join(ds, " "))
	}
	return sb.String()
}

// keyLeafOf reports whether the last element of p is a key leaf of the list entry it sits in.
func keyLeafOf(p *sdcpb.Path) bool {
	n := len(p.GetElem())
	if n < 2 {
		return false
	}
	_, ok := p.GetElem()[n-2].GetKey()[p.GetElem()[n-1].GetName()]
	return ok
}

// addPath registers the list entries on the path.
func (d *c10Denot) addEntries(p *sdcpb.Path) {
	for i, pe := range p.GetElem() {
		if len(pe.GetKey()) > 0 {
			ep := &sdcpb.Path{Elem: p.GetElem()[:i+1]}
			d.Entries[CanonPath(ep)] = true
			d.Paths[CanonPath(ep)] = ep
		}
	}
}

func c10FromProto(upds []*sdcpb.Update, dels []*sdcpb.Path) *c10Denot {
	d := newC10Denot()
	for _, u := range upds {
		d.addEntries(u.GetPath())
		if keyLeafOf(u.GetPath()) {
			continue
		}
		c := CanonPath(u.GetPath())
		if _, dup := d.Leaves[c]; dup {
			d.Problems = append(d.Problems, "path occurs twice among the proto updates: "+c)
		}
		d.Leaves[c] = CanonTV(u.GetValue())
		d.Paths[c] = u.GetPath()
	}
	for _, p := range dels {
		d.Deletes[CanonPath(p)] = true
		d.Paths[CanonPath(p)] = p
	}
	return d
}

func (u *Universe) c10FromJSON(doc any, ietf bool) *c10Denot {
	d := newC10Denot()
	if doc == nil {
		return d
	}
	leaves, paths, problems := u.JSONLeavesPaths(doc, ietf)
	d.Problems = problems
	for c, v := range leaves {
		pp, ok := paths[c]
		if !ok {
			d.Problems = append(d.Problems, "leaf without structured path "+c)
			continue
		}
		sp := pp.Sdcpb()
		d.addEntries(sp)
		if keyLeafOf(sp) {
			continue
		}
		d.Leaves[c] = v
		d.Paths[c] = sp
	}
	return d
}

// xmlText canonicalises the text of a leaf element according to its YANG type.
func xmlText(s string, t *sdcpb.SchemaLeafType) string {
	typ := t.GetType()
	if typ == "leafref" && t.GetLeafrefTargetType() != nil {
		return xmlText(s, t.GetLeafrefTargetType())
	}
	switch typ {
	case "decimal64":
		c, _ := canonDecimalString(s)
		return c
	case "identityref":
		if i := strings.Index(s, ":"); i >= 0 {
			return s[i+1:]
		}
	case "empty":
		return "<empty>"
	case "binary":
		if b, err := base64.StdEncoding.DecodeString(s); err == nil {
			return fmt.Sprintf("bytes:%x", b)
		}
	case "union":
		return s
	}
	return s
}

func xmlOperation(e *etree.Element) (val string, prefixed bool, nsOK bool, found bool) {
	for _, a := range e.Attr {
		if a.Key == "operation" {
			nsOK = true
			if a.Space != "" {
				prefixed = true
				nsOK = a.NamespaceURI() == ncBaseNS
			}
			return a.Value, prefixed, nsOK, true
		}
	}
	return "", false, false, false
}

// c10FromXML interprets an edit-config content document.
func (u *Universe) c10FromXML(doc *etree.Document, o XMLOpt) *c10Denot {
	d := newC10Denot()
	if doc == nil {
		return d
	}
	u.xmlChildren(&doc.Element, nil, nil, nil, o, d)
	sort.Strings(d.Problems)
	return d
}

func (u *Universe) xmlChildren(parent *etree.Element, skip []string, keyless []string, path Path, o XMLOpt, d *c10Denot) {
	problem := func(f string, a ...any) { d.Problems = append(d.Problems, fmt.Sprintf(f, a...)) }
	// checkOp returns "" (no operation), "delete" or "replace"
	checkOp := func(e *etree.Element, at string) string {
		val, prefixed, nsOK, found := xmlOperation(e)
		if !found {
			return ""
		}
		if prefixed != o.OpWithNS {
			problem("operation-namespace: %s carries the operation attribute %s namespace prefix, configured is operationWithNamespace=%v", at, map[bool]string{true: "with", false: "without"}[prefixed], o.OpWithNS)
		}
		if prefixed && !nsOK {
			problem("operation-namespace: the prefix of the operation attribute at %s does not resolve to %s", at, ncBaseNS)
		}
		if val == "replace" {
			return "replace" // the subtree is deleted, then written with the element's content
		}
		want := "delete"
		if o.UseRemove {
			want = "remove"
		}
		if val != want {
			problem("operation-value: %s carries operation=%q, configured is %q", at, val, want)
		}
		return "delete"
	}
	llSeen := map[string][]string{}
	for _, c := range parent.ChildElements() {
		name := c.Tag
		skipped := false
		for _, k := range skip {
			if name == k {
				skipped = true
			}
		}
		if skipped {
			continue
		}
		if name == "" {
			problem("nameless-element: an element without a name under %s", path)
			continue
		}
		ckl := append(append([]string{}, keyless...), name)
		ni, err := u.Node(ckl)
		if err != nil {
			problem("unknown-element: <%s> under %s is not a schema node", name, path)
			continue
		}
		if o.HonorNS {
			if got := c.NamespaceURI(); got != ni.ns {
				problem("namespace: <%s> under %s resolves to namespace %q, its schema node is in %q", name, path, got, ni.ns)
			}
		}
		cpath := append(append(Path{}, path...), PE{Name: name})
		switch x := ni.se.GetSchema().(type) {
		case *sdcpb.SchemaElem_Container:
			if len(ni.keys) > 0 {
				// one element per list entry: keys first, in key-statement order
				kids := c.ChildElements()
				complete := true
				for i, k := range ni.keys {
					ke := c.SelectElement(k)
					if ke == nil {
						problem("key-missing: entry of list %s lacks key <%s>", cpath, k)
						complete = false
						continue
					}
					if i >= len(kids) || kids[i].Tag != k {
						problem("keys-not-first: entry of list %s does not start with its keys in key-statement order %v (children: %s)", cpath, ni.keys, tagsOf(kids))
					}
					if val, _, _, found := xmlOperation(ke); found {
						problem("key-operation: key <%s> of an entry of list %s carries operation=%q (a key leaf cannot be deleted on its own)", k, cpath[:len(cpath)-1].String()+"/"+name, val)
					}
					if n := len(c.SelectElements(k)); n > 1 {
						problem("key-duplicate: entry of list %s carries key <%s> %d times", cpath, k, n)
					}
					kni, _ := u.Node(append(append([]string{}, ckl...), k))
					kv := ke.Text()
					if kni != nil && kni.leafType() != nil {
						kv = xmlText(kv, kni.leafType())
					}
					cpath[len(cpath)-1].Keys = append(cpath[len(cpath)-1].Keys, [2]string{k, kv})
				}
				if !complete {
					continue
				}
				d.Paths[cpath.String()] = cpath.Sdcpb()
				switch checkOp(c, cpath.String()) {
				case "delete":
					d.Deletes[cpath.String()] = true
					continue
				case "replace":
					d.Deletes[cpath.String()] = true
				}
				d.Entries[cpath.String()] = true
				// the remaining children (the keys are implied by the path)
				if o.HonorNS {
					for _, k := range ni.keys {
						ke := c.SelectElement(k)
						if kni, _ := u.Node(append(append([]string{}, ckl...), k)); kni != nil && ke != nil && ke.NamespaceURI() != kni.ns {
							problem("namespace: key <%s> of %s resolves to namespace %q, its schema node is in %q", k, cpath, ke.NamespaceURI(), kni.ns)
						}
					}
				}
				u.xmlChildren(c, ni.keys, ckl, cpath, o, d)
				continue
			}
			d.Paths[cpath.String()] = cpath.Sdcpb()
			switch checkOp(c, cpath.String()) {
			case "delete":
				d.Deletes[cpath.String()] = true
				continue
			case "replace":
				d.Deletes[cpath.String()] = true
			}
			if len(c.ChildElements()) == 0 {
				if x.Container.GetIsPresence() {
					d.Leaves[cpath.String()] = "<empty>"
				} else {
					problem("empty-container: non-presence container %s is rendered without content", cpath)
				}
				continue
			}
			u.xmlChildren(c, nil, ckl, cpath, o, d)
		case *sdcpb.SchemaElem_Field:
			d.Paths[cpath.String()] = cpath.Sdcpb()
			if checkOp(c, cpath.String()) == "delete" {
				d.Deletes[cpath.String()] = true
				continue
			}
			if _, dup := d.Leaves[cpath.String()]; dup {
				problem("leaf-duplicate: leaf %s occurs twice", cpath)
			}
			d.Leaves[cpath.String()] = xmlText(c.Text(), x.Field.GetType())
		case *sdcpb.SchemaElem_Leaflist:
			d.Paths[cpath.String()] = cpath.Sdcpb()
			if checkOp(c, cpath.String()) == "delete" {
				d.Deletes[cpath.String()] = true
				continue
			}
			llSeen[cpath.String()] = append(llSeen[cpath.String()], xmlText(c.Text(), x.Leaflist.GetType()))
		}
	}
	for c, els := range llSeen {
		d.Leaves[c] = LL(els...)
	}
}

func tagsOf(es []*etree.Element) string {
	var ts []string
	for _, e := range es {
		ts = append(ts, e.Tag)
	}
	return strings.Join(ts, ",")
}

// C10Checker compares the renderings of every device call of the step.
type C10Checker struct{}

func (C10Checker) Check(s *Step) []*Violation {
	var vs []*Violation
	u := s.W.U
	calls := s.W.Dev.Calls
	kind := opKinds(s.Op)
	add := func(clause, where, detail string) {
		tag := ""
		if strings.Contains(detail, "/tk") || strings.Contains(detail, "/dk") || strings.Contains(detail, "<tk>") || strings.Contains(detail, "<dk>") || strings.Contains(detail, `"tk"`) || strings.Contains(detail, `"dk"`) || strings.Contains(detail, `:tk"`) || strings.Contains(detail, `:dk"`) {
			tag = ":nonalpha-keys"
		}
		if strings.Contains(detail, "/mode") || strings.Contains(detail, "<mode") || strings.Contains(detail, `mode"`) {
			tag += ":choice"
		}
		vs = append(vs, &Violation{Clause: clause, Sig: clause + tag + ":" + where + ":" + kind, Detail: detail})
	}
	pre := s.Pre.Device
	prePaths := s.W.Dev.PathsEverHeld()
	for i := len(calls) - s.Out.DevCalls; i < len(calls); i++ {
		r := calls[i].R
		if r == nil {
			continue
		}
		for _, e := range r.Errs {
			add("render-error", strings.SplitN(e, ":", 2)[0], e)
		}
		var next map[string]string
		for _, all := range []bool{false, true} {
			tag := "new-or-updated"
			upds, js, ietf, xmls := r.ProtoUpdates, r.JSON, r.IETF, r.XMLDocs
			if all {
				tag = "all"
				upds, js, ietf, xmls = r.ProtoUpdatesAll, r.JSONAll, r.IETFAll, r.XMLDocsAll
			}
			ref := c10FromProto(upds, r.ProtoDeletes)
			for _, p := range ref.Problems {
				add("proto-malformed", tag, p)
			}
			want := ref.effect(u, pre, prePaths)
			if !all {
				next = want
			}
			// gNMI: the deletes are always the proto deletes, the updates come in the selected encoding
			for name, d := range map[string]*c10Denot{"json": u.c10FromJSON(js, false), "json-ietf": u.c10FromJSON(ietf, true)} {
				for _, p := range d.Problems {
					add(name+"-malformed", tag+":"+SchemaClass(p), p)
				}
				d.Deletes = ref.Deletes
				for c, p := range ref.Paths {
					if ref.Deletes[c] {
						d.Paths[c] = p
					}
				}
				if got := d.effect(u, pre, prePaths); mapKey(got) != mapKey(want) {
					add(name+"-differs", tag+":"+c10EffectClass(want, got), fmt.Sprintf("%s (%s) and the proto updates denote different changes; resulting configuration\nproto: %s\n%s: %s\ndocument: %s", name, tag, diffMaps(got, want), name, diffMaps(want, got), jsonStr(map[bool]any{false: js, true: ietf}[name == "json-ietf"])))
				}
			}
			for _, o := range AllXMLOpts() {
				doc := xmls[o]
				d := u.c10FromXML(doc, o)
				ot := fmt.Sprintf("ns=%v,opns=%v,remove=%v", o.HonorNS, o.OpWithNS, o.UseRemove)
				for _, p := range d.Problems {
					add("xml-"+strings.SplitN(p, ":", 2)[0], tag+":"+ot, p)
				}
				if got := d.effect(u, pre, prePaths); mapKey(got) != mapKey(want) {
					xs := ""
					if doc != nil {
						xs, _ = doc.WriteToString()
					}
					cause := ""
					if strings.Contains(xs, `operation="replace"`) {
						cause += "leaflist-replace:"
					}
					if c10AggregatedEntryDelete(ref, d, want, got) {
						cause += "aggregated-entry-delete:"
					}
					if c10LoserCaseOnly(s, want, got) {
						cause += "loser-case-residue:"
					}
					add("xml-differs", cause+tag+":"+ot+":"+c10EffectClass(want, got), fmt.Sprintf("XML (%s, %s) and the proto change denote different changes; resulting configuration\nonly with proto: %s\nonly with xml: %s\nproto deletes: %v\ndocument: %s", tag, ot, diffMaps(got, want), diffMaps(want, got), calls[i].Deletes, xs))
				}
			}
		}
		if next != nil {
			pre = next
		}
	}
	return vs
}

// c10LoserCaseOnly: every path on which the two results differ belongs to a case of a choice that is not the case of
// the highest-precedence live contribution (the device still carries nodes of a losing case, which is C08's recorded
// subject; the views then disagree on what to do with the residue).
func c10LoserCaseOnly(s *Step, want, got map[string]string) bool {
	if s.ModelPost == nil {
		return false
	}
	type win struct {
		cas  string
		prio int32
	}
	winners := map[string]win{}
	for _, li := range s.ModelPost.Live {
		for p := range li.Defined {
			for _, sl := range choiceSlots(p) {
				if w, ok := winners[sl.key()]; !ok || li.Prio < w.prio {
					winners[sl.key()] = win{sl.cas, li.Prio}
				}
			}
		}
	}
	n := 0
	diff := func(a, b map[string]string) bool {
		for p, v := range a {
			if bv, ok := b[p]; ok && bv == v {
				continue
			}
			n++
			loser := false
			for _, sl := range choiceSlots(p) {
				if w, ok := winners[sl.key()]; !ok || w.cas != sl.cas {
					loser = true
				}
			}
			if !loser {
				return false
			}
		}
		return true
	}
	return diff(want, got) && diff(got, want) && n > 0
}

// c10AggregatedEntryDelete: the proto change deletes a whole list entry where the XML deletes leaves of that entry,
// and some difference of the results lies below such an entry (leaves of the entry no intent manages survive in XML).
func c10AggregatedEntryDelete(ref, d *c10Denot, want, got map[string]string) bool {
	for rc := range ref.Deletes {
		rp := ref.Paths[rc]
		if rp == nil || len(rp.GetElem()) == 0 || len(rp.GetElem()[len(rp.GetElem())-1].GetKey()) == 0 {
			continue
		}
		finer := false
		for dc := range d.Deletes {
			if dp := d.Paths[dc]; dp != nil && dc != rc && PathHasPrefix(dp, rp) {
				finer = true
			}
		}
		if !finer {
			continue
		}
		for c := range got {
			if _, ok := want[c]; !ok && strings.HasPrefix(c, rc+"/") {
				return true
			}
		}
	}
	return false
}

// c10EffectClass names how two resulting configurations differ (for signatures).
func c10EffectClass(want, got map[string]string) string {
	missing, extra, other := false, false, false
	for c, v := range want {
		g, ok := got[c]
		switch {
		case !ok:
			missing = true
		case g != v:
			other = true
		}
	}
	for c := range got {
		if _, ok := want[c]; !ok {
			extra = true
		}
	}
	var cs []string
	if missing {
		cs = append(cs, "lacks")
	}
	if extra {
		cs = append(cs, "keeps-or-adds")
	}
	if other {
		cs = append(cs, "value")
	}
	return strings.Join(cs, "+")
}

func c10Frags() (map[string]*Fragment, []string) {
	fr := mergeFrags(mergeFrags(CoreFragments(), MultiKeyFragments()), ChoiceFragments())
	u1, u5 := K{"id", "1"}, K{"id", "5"}
	// nested list with two entries; fu2 differs from fu1 only in the first entry, fu3 only in the last
	fr["fu1"] = &Fragment{Name: "fu1", Leaves: []Leaf{leaf("10", "if", e1, "unit", u1, "vlan"), leaf("50", "if", e1, "unit", u5, "vlan")}}
	fr["fu2"] = &Fragment{Name: "fu2", Leaves: []Leaf{leaf("11", "if", e1, "unit", u1, "vlan"), leaf("50", "if", e1, "unit", u5, "vlan")}}
	fr["fu3"] = &Fragment{Name: "fu3", Leaves: []Leaf{leaf("10", "if", e1, "unit", u1, "vlan")}}
	// mk4 -> mk5 changes only the non-key leaf of an existing two-key entry; mk6 is another leaf of that entry
	fr["mk6"] = &Fragment{Name: "mk6", Leaves: []Leaf{leaf("w1", "ok2", K{"k1", "x"}, K{"k2", "y"}, "w")}}
	// cpv -> cpc keeps the presence container and withdraws its only child, a leaf with a default
	fr["cpv"] = &Fragment{Name: "cpv", Leaves: []Leaf{leafEmpty("mode", "pc"), leaf("z", "mode", "pc", "pv")}}
	return fr, []string{"fa", "fb", "fd", "fp", "fg", "fh", "fm", "mk4", "mk5", "mk6", "ca1", "cpc", "cpv", "fu1", "fu2", "fu3"}
}

// c10Initials: the core initial configurations plus one with an unmanaged leaf inside a two-key list entry (the entry
// survives when the intents withdraw from it, its key leaves must not be deleted on their own).
func c10Initials() []*Initial {
	return append(CoreInitials(), &Initial{Name: "R3", Leaves: []Leaf{
		leaf("unmanaged", "ok2", K{"k1", "x"}, K{"k2", "y"}, "w"),
		leaf("u3", "ok3", K{"k1", "x"}, K{"k2", "y"}, K{"k3", "z"}, "v"),
	}})
}

// c10GNMIPhases: the production gnmiTarget (target.New) connected to an in-process gNMI server, once per encoding.
func c10GNMIPhases() []*extraPhase {
	var ps []*extraPhase
	for _, enc := range []string{"proto", "json", "json_ietf"} {
		enc := enc
		ps = append(ps, &extraPhase{name: "gnmi_" + enc, checker: C10GNMIChecker{Encoding: enc},
			names: []string{"fa", "fb", "fd", "fg", "fh", "mk2", "mk5", "ca1", "fu1", "fu2"}, depth: [2]int{2, 3},
			initials: func() []*Initial { return CoreInitials()[:2] },
			makeTarget: func(w *World) target.Target {
				t, err := newGNMITee(w, enc)
				if err != nil {
					panic("harness: " + err.Error())
				}
				return t
			}})
	}
	return ps
}

func init() {
	registerE1("C10", &e1Config{checker: C10Checker{}, depth: [2]int{2, 3}, orphan: true, renderAll: true, frags: c10Frags, noPrune: true, initials: c10Initials,
		// second phase: the lists whose keys are declared in non-alphabetical order, kept apart because their (recorded) defect
		// contaminates every later transition
		deep: &deepPhase{names: []string{"mk1", "mk2", "fa"}, depth: [2]int{2, 3}, initials: func() []*Initial { return CoreInitials()[:1] }},
		extra: c10GNMIPhases(),
		extraAssume: []string{"the four TargetSource views are called on the same tree instance inside the recording device's Set; JSON and XML are interpreted by schema-guided walkers of the harness (XML namespaces resolved by etree's scoping rules)"}})
}
