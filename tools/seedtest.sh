#!/bin/bash
# seedtest.sh <seed-name> <worktree> <changeN.diff> <demoN_test.go.txt> <demo pkg dir (relative)> <property> [more properties...]
# 1. confirms in the scratch worktree: suite passes with the change, demo fails with it and passes without it
# 2. applies the change to /repo, runs the given checks (quick), reverts /repo
# 3. stores /verif/seeded/<seed-name>/{patch.diff,demo_test.go.txt,meta.json}
set -u
NAME=$1; WT=$2; DIFF=$3; DEMO=$4; PKG=$5; shift 5
export GOFLAGS=-mod=mod GOPROXY=off GOSUMDB=off GOTOOLCHAIN=local
OUT=/verif/seeded/$NAME; mkdir -p $OUT
cp "$DIFF" $OUT/patch.diff; cp "$DEMO" $OUT/demo_test.go.txt
git -C $WT checkout -q -- . ; rm -f $WT/$PKG/zz_seed_*_test.go
# demo without change
cp "$DEMO" $WT/$PKG/zz_seed_9_test.go
(cd $WT && go test -vet=off -count=1 -run 'Seed' ./$PKG/ >/dev/shm/seed_clean.log 2>&1); CLEAN=$?
git -C $WT apply "$DIFF" || { echo "patch does not apply in worktree"; exit 2; }
(cd $WT && go test -vet=off -count=1 -run 'Seed' ./$PKG/ >/dev/shm/seed_mut.log 2>&1); MUT=$?
rm -f $WT/$PKG/zz_seed_9_test.go
(cd $WT && go build ./... && go test -vet=off -count=1 ./... 2>&1 | grep -v "no test files" >/dev/shm/seed_suite.log); 
SUITE_FAILS=$(grep -c "^--- FAIL" /dev/shm/seed_suite.log); SUITE_FAIL_NAMES=$(grep "^--- FAIL" /dev/shm/seed_suite.log | grep -v expandUpdateLeafAsKeys | tr '\n' ';')
git -C $WT checkout -q -- .
echo "demo clean exit=$CLEAN (want 0)  demo mutated exit=$MUT (want !=0)  suite FAIL lines (non-flaky)='$SUITE_FAIL_NAMES'"
# run my checks against the change in /repo
if ! git -C /repo apply --check "$DIFF" 2>/dev/null; then echo "patch does not apply to /repo HEAD"; APPLIES=false; else APPLIES=true; fi
RES="{}"
if $APPLIES; then
  git -C /repo apply "$DIFF"
  RES="{"
  for P in "$@"; do
    timeout 1500 /verif/run $P quick > /dev/shm/seed_check_$P.log 2>&1; RC=$?
    NV=$(grep -c "^VIOLATION" /dev/shm/seed_check_$P.log)
    echo "check $P: exit=$RC violations=$NV"; grep -A1 "^VIOLATION" /dev/shm/seed_check_$P.log | grep signature | head -5
    RES="$RES\"$P\": {\"exit\": $RC, \"violation_lines\": $NV},"
  done
  RES="${RES%,}}"
  git -C /repo checkout -q -- .
fi
cat > $OUT/meta.json <<EOM
{"seed": "$NAME", "properties_targeted": "$*", "demo_pkg": "$PKG",
 "confirmed": {"demo_passes_on_clean_tree": $([ $CLEAN -eq 0 ] && echo true || echo false), "demo_fails_with_change": $([ $MUT -ne 0 ] && echo true || echo false), "suite_nonflaky_failures_with_change": "$SUITE_FAIL_NAMES"},
 "applies_to_repo_head": $APPLIES, "repo_head": "$(git -C /repo log --format=%h -1)",
 "checks_quick": $RES}
EOM
cat $OUT/meta.json
