#!/usr/bin/env python3
# mkseedprompt.py <ID> [hint]  -> writes /tmp/agent-prompt-<ID>.txt and creates worktree /tmp/wt-<ID>
import json, sys, subprocess
pid = sys.argv[1]
hint = sys.argv[2] if len(sys.argv) > 2 else ""
tpl = open("/tmp/agent-prompt-C16.txt").read() if False else None
p = next(json.loads(l) for l in open("/verif/properties.jsonl") if json.loads(l)["id"] == pid)
wt = f"/tmp/wt-{pid}"
subprocess.run(["git", "-C", "/repo", "worktree", "add", "--detach", wt, "HEAD"], check=True, capture_output=True)
text = f"""You are helping to test a verification harness by producing realistic, subtle bugs ("seeded changes") in a Go code base. Work ONLY inside the git worktree {wt} (a checkout of the repository sdcio/data-server: a YANG-schema-driven config datastore that merges prioritized intents in a tree, validates them, and pushes diffs to devices via gNMI/NETCONF). Do NOT read or write anything under /verif or /repo. Ignore files named verif_hooks.go (build tag verif) — they are test hooks, do not change them; do not look at other /tmp/wt-* directories. You have no network.

Every shell command that uses go must start with:
  export GOFLAGS=-mod=mod GOPROXY=off GOSUMDB=off GOTOOLCHAIN=local
The repository's test suite is run with:  cd {wt} && go test -vet=off -count=1 ./...   (about 40 s; it must PASS with your change applied; the test TestDatastore_expandUpdateLeafAsKeys/multiple_keys_end is known to be flaky, ignore it).

Here is a semantic property the code base is supposed to satisfy:

-----
{pid}: {p['title']}

Statement: {p['statement']}

Quantifier: {p['quantifier']['text']}

Anchor files: {', '.join(p['anchors']['files'])}

-----

Your task: produce TWO different, independent changes to the non-test Go sources under {wt}/pkg (each a separate small patch against the clean worktree{hint}) such that, for each change:
 1. the code still compiles and the existing test suite (command above) still passes, unedited;
 2. the property above is broken: there is some concrete situation in which the behaviour described by the property no longer holds;
 3. the breakage needs something specific to manifest - a multi-step sequence of operations, a particular overlap between intents/owners/priorities, an unusual but valid input, a fault or interleaving at a particular point, or two cooperating sites that each look fine alone. Do NOT produce changes that ordinary single-step use would expose at once (e.g. "always return an error", "never send anything"). Prefer changes that look like plausible programmer mistakes in the anchor files (off-by-one on a count, a wrong filter/flag, a comparison that ignores a field, an early return, using the new value where the old is needed, a condition inverted for one case only).
 4. you provide a demonstration: a Go test file (placed in the relevant package directory of the worktree, named zz_seed_<n>_test.go, test function names starting with TestSeed) that FAILS with the change applied and PASSES on the clean worktree. The demonstration may use the repository's own test helpers (see pkg/utils/testhelper, pkg/datastore/*_test.go, pkg/tree/*_test.go for how trees/datastores are built in tests with the mock cache client and the test schema in tests/schema). A demonstration at the level of the tree / datastore internals is fine as long as it shows the property-relevant misbehaviour.

Deliver, in the directory {wt}/seed_out/ :
  change1.diff, change2.diff   - `git diff` output of ONLY the source change (not the demo test), each against the clean worktree
  demo1_test.go.txt, demo2_test.go.txt - the demonstration test files (copy; also say in which package dir they must be placed)
  NOTES.md - for each change: what it breaks, what exactly is needed for it to manifest (the sequence / inputs), and the commands you ran with their results (suite passes with change; demo fails with change; demo passes without).
Before finishing, make sure the worktree's tracked files are back to clean (git -C {wt} checkout -- . ; remove demo tests from package dirs) so that only seed_out/ remains as untracked output. Verify each diff applies cleanly with `git -C {wt} apply --check seed_out/changeN.diff`.

Reply with a short summary of the two changes (file, function, one-line description, what is needed to manifest, package dir of each demo).
"""
open(f"/tmp/agent-prompt-{pid}.txt", "w").write(text)
print(f"/tmp/agent-prompt-{pid}.txt", wt)
