#!/bin/bash
# Supplementary free-running -race pass for C17 (sampling, not part of the exhaustive verdict):
# builds the harness un-instrumented with the Go race detector and runs the C17 scenario bodies with real goroutines.
set -u
export VERIF_DIR="${VERIF_DIR:-/verif}"
export GOFLAGS=-mod=mod GOPROXY=off GOSUMDB=off GOTOOLCHAIN=local
S=/dev/shm/verif-race-$$; mkdir -p $S; trap 'rm -rf $S' EXIT
python3 - "$S" "$VERIF_DIR" <<'PY'
import json,os,sys
out,vd=sys.argv[1],sys.argv[2]
rt=os.path.join(vd,'rt'); ov={}
for root,_,files in os.walk(rt):
    for f in files:
        if f.endswith('.go') and not f.endswith('_test.go'):
            p=os.path.join(root,f); ov[os.path.join('/repo/pkg/verifrt',os.path.relpath(p,rt))]=p
json.dump({"Replace":ov},open(out+'/overlay.json','w'))
PY
cd "$VERIF_DIR/harness" && go build -race -tags "verif verifsched" -overlay $S/overlay.json -o "$VERIF_DIR/bin/vcheck-race" ./cmd/vcheck || exit 2
GORACE="halt_on_error=0 exitcode=0" "$VERIF_DIR/bin/vcheck-race" C17race > $S/out.log 2> $S/err.log
RC=$?
tail -3 $S/out.log
N=$(grep -c "WARNING: DATA RACE" $S/err.log)
echo "race reports: $N"
if [ "$N" -gt 0 ]; then grep -A12 "WARNING: DATA RACE" $S/err.log | grep -E "^  [a-zA-Z].*\(\)|data-server/pkg" | head -40; fi
[ "$RC" -eq 0 ] && [ "$N" -eq 0 ]
