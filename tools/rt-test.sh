#!/bin/bash
# Runs the unit tests of the scheduler runtime (rt/*_test.go) in a scratch module named like the virtual package.
set -eu
export GOFLAGS=-mod=mod GOPROXY=off GOSUMDB=off GOTOOLCHAIN=local
S=/dev/shm/verif-rttest-$$; mkdir -p $S; trap 'rm -rf $S' EXIT
cp -r /verif/rt/. $S/
cat > $S/go.mod <<'M'
module github.com/sdcio/data-server/pkg/verifrt

go 1.23.4
M
cd $S && go test -vet=off -count=1 "$@" .
