#!/usr/bin/env python3
"""Generates /verif/MANIFEST.json from the table below and validates it against the schema."""
import json, os, subprocess, sys

V = os.environ.get("VERIF_DIR", "/verif")

E1 = "E1-history-bfs"
CHECKS = {
 "C01": dict(level="model_checking", engine=E1, design="DESIGN.md §3 C01",
   technique="explicit-state BFS over TransactionSet histories on the real Datastore + real badger cache, reference-model oracle on every transition",
   text="Exhaustive breadth-first exploration of all operation histories up to a depth bound over a colliding intent alphabet (3 owners, re-prioritisation, shrink, delete, orphan delete, two-intent transactions, 1..3-key lists, leaf-lists, presence container, 3 initial running configurations); after every applied transition the recording device's configuration is compared with a map-based reference model of the live intents. A bounded model check is the right level: the property quantifies over histories, and states are cheap to canonicalise because the Datastore keeps all state in the cache stores.",
   note="Bounded by depth and by the alphabet printed in the evidence; universe schema /verif/schema; device = recording target applying proto deletes then updates; Go map iteration order inside the implementation is not enumerated."),
 "C02": dict(level="model_checking", engine=E1, design="DESIGN.md §3 C02",
   technique="explicit-state BFS over TransactionSet histories; intended store dumped through the real cache API and compared with the reference model after every transition",
   text="Same exhaustive history exploration as C01; after every applied transition the complete intended store, read back through GetKeys + Read(Priority:-1) of the real cache, must equal the union of the live intents of the reference model (path, owner, priority, value), which also shows that intents not named in the transaction are unchanged.",
   note="Bounded by depth and alphabet; the observation is the cache API, not Datastore.Get; timestamps are ignored."),
 "C03": dict(level="model_checking", engine=E1, design="DESIGN.md §3 C03",
   technique="explicit-state BFS over histories; a request menu (valid, invalid per constraint class, mixed, with/without replace intent, dry run or not) is executed from every reached state; device calls, cache Modify calls and canonical stores compared; dry runs re-executed for real on a replica of the same state",
   text="From every state reachable within the depth bound the whole request menu is executed on the real Datastore. For every rejected or dry-run request the recording device must see no Set call, the cache decorator no Modify call, and intended store, running store and device must be identical before and after; an invalid replace intent must surface as error or intent errors; for every successful dry run the same request is run for real on a fresh replica of the same state and the reported updates/deletes must equal what the device receives.",
   note="Bounded by depth, alphabet and the request menu printed in the evidence; invalid fragments violate one constraint class each independent of the state."),
 "C04": dict(level="model_checking", engine=E1, design="DESIGN.md §3 C04",
   technique="explicit-state BFS over histories over a constraint-exercising alphabet with a hand-written reference validator as oracle, differential re-submission of every resulting configuration as one intent, one search per validator switch, and exhaustive enumeration of partitions x priority orders of target configurations",
   text="Every transition's accept/reject verdict is compared with a ~100-line reference validator for the universe's constraints (mandatory, leafref, must, range, length, pattern, min/max-elements) evaluated on the merge that results; every resulting configuration is also submitted as a single intent to an empty datastore and must get the same verdict; the search is repeated with each validator switch off (the class it governs excluded from the verdict) and with sequential validation; all partitions of 7 target configurations into up to 3 (quick) / 4 (thorough) intents with every priority order must get the verdict of the unsplit configuration.",
   note="Bounded by depth/alphabet; reference validator covers only the constraints of /verif/schema; type-level refusals at conversion time are not judged; switch-off searches are one level shallower."),
 "C05": dict(level="model_checking", engine=E1, design="DESIGN.md §3 C05",
   technique="explicit-state BFS over histories; every transaction of the alphabet is executed from every reached state and ended by TransactionCancel and by real timer expiry (1 ms timeout), intended store and device compared with the pre-transaction snapshot",
   text="From every state reachable within the depth bound every transaction of the alphabet (create, change, shrink, re-prioritise, delete, two intents; ruling and shadowed) is applied and then cancelled, and separately left to expire; afterwards the canonical intended store must equal the snapshot taken before the transaction and every path the transaction sent to the device must be back at its previous value or absence.",
   note="Expiry uses the real timer goroutine with a 1 ms timeout and a 30 s watchdog (one active thread; interleavings of confirm/cancel/expiry are C16). Unmanaged leaves removed by an aggregated list-entry delete are not required to come back."),
 "C06": dict(level="model_checking", engine="E4-sched", design="DESIGN.md §3 C06",
   technique="exhaustive enumeration of API sequences (Set valid/invalid/dry-run/device-error, Confirm, Cancel with matching, other and stale ids, wait-for-timeout) up to a length bound on the source-instrumented build under the cooperative scheduler with virtual time, compared step by step with a reference state machine",
   text="All sequences up to length 3 (quick) / 4 (thorough) over a 15-operation alphabet run on the real Datastore (real cache, recording device) compiled from instrumented sources, so that the rollback timer is a virtual-time event and a TransactionSet waiting for the datastore can be given up deterministically. Each step's return value and device traffic are compared with a reference machine (open in {none,id}); wrong-id calls must fail and leave the open transaction untouched (a later timeout still produces exactly one rollback); after every sequence the timeout elapses and a fresh valid transaction must be admitted.",
   note="One (default, non-preemptive) schedule per sequence; interleavings are C16's subject. The instrumenter rewrites sync/channel/select/go/time operations of pkg/datastore, pkg/datastore/types and pkg/server from the working tree; anything it cannot classify is a hard error."),
 "C16": dict(level="model_checking", engine="E4-sched", design="DESIGN.md §3 C16",
   technique="stateless depth-first exploration of all thread interleavings (iterative preemption bounding, timer expiry as environment deviation) of the real TransactionManager / Transaction / TransactionCancelTimer compiled from instrumented sources under a cooperative scheduler",
   text="After a sequential set-up (register, record old intents, arm the rollback timer) every multiset of up to two (quick, plus selected triples) or three (thorough) of Confirm(t1), Cancel(t1), Confirm(other), Cancel(other), Register(t2) runs concurrently with the timer-expiry environment event; all interleavings within the preemption/deviation bound are executed on the real code at the granularity of its lock, channel, select and timer operations. Every execution must end without panic (double close) or deadlock, with at most one rollback, no rollback after a successful Confirm, exactly one after a successful Cancel or an unanswered expiry, wrong-id calls failing without effect, and the slot released iff the transaction is resolved.",
   note="Sequential consistency; the rollback itself is a recording stub with two scheduling points (harness A). Bounds completed are printed in the evidence."),
 "C13": dict(level="model_checking", engine="E4-sched", design="DESIGN.md §3 C13",
   technique="stateless depth-first exploration of all interleavings (preemption bound) of the real Datastore.Sync loop and its storeSyncMsg goroutines, compiled from instrumented sources, over the real cache, for every notification sequence of a bounded alphabet, write workers in {1,2,16} and validation on/off; final stores compared with a reference model that applies the notifications in channel order",
   text="A scripted target feeds every sequence of up to 2 (thorough 3) on-change notifications over a 14-message alphabet (scalar updates, two updates in one notification, a state leaf, JSON blobs at a list entry and at the list, a leaf-list sent as keys, deletes of a leaf / list entry / whole list, delete+update) and bracketed re-sync cycles (pre, START, up to two notifications, END, post; two cycles) through the datastore's own sync channel into the real Sync loop. Every cache call is a scheduling point, so the completion orders of concurrently processed notifications and of prune bracketing are enumerated. After the channel is drained and every write returned the CONFIG and STATE stores must equal the reference: latest notification per path wins, paths absent from a completed cycle are gone, state leaves are in the STATE store when validation is on, deletes remove exactly the element-wise subtree (prefix-related names mtu/mtu-ext, if/ifx, e1/e10 are preloaded).",
   note="The cache executes each call atomically; cycles are well bracketed; JSON blobs do not repeat the list keys of their path (the converter rejects that by design). Overtaking with more than one write worker is a recorded known finding, so the clean guarantee is for one write worker."),
 "C17": dict(level="model_checking", engine="E4-sched", design="DESIGN.md §3 C17",
   technique="stateless depth-first exploration of the interleavings of the real validator goroutines (pkg/tree, pkg/types and the bound schema client compiled from instrumented sources; preemption bound and a bound on non-default successor choices), each execution compared with the verdict of the sequential run and checked by a vector-clock happens-before race detector over the tracked field and map accesses of the tree structures",
   text="Six (thorough eight) transactions chosen so that validators load defaults and running values on demand, follow leafrefs into sibling branches and into the running config, evaluate must expressions across branches and fail in several classes at once (must, leafref, optional leafref warning, pattern, range, min/max-elements, mandatory) run through the real Datastore.TransactionSet with concurrent validation. Every interleaving within the bounds of the per-child validator goroutines, the result channel and all childMap / LeafVariants / LeafEntry / cache / schema lock operations is executed; the error and warning sets per intent, the device payload and the resulting stores must equal those of the same transaction validated with DisableConcurrency, no execution may panic or deadlock, and the happens-before detector (go, Mutex, RWMutex, WaitGroup, Once, channel edges; field and map accesses of pkg/tree and pkg/types structs routed through the runtime by the instrumenter) must report no unsynchronised conflicting access.",
   note="Sequential consistency; map iteration in the instrumented packages is made deterministic (key order) so that an execution is a function of the scheduler's choices; accesses the instrumenter cannot rewrite without changing meaning (non-addressable operands, address-taken fields) are not tracked; bounds are printed in the evidence (quick: 1 preemption, 1 non-default successor choice)."),
 "C19": dict(level="model_checking", engine="E4-sched", design="DESIGN.md §3 C19",
   technique="stateless depth-first exploration of all thread interleavings (preemption bound) and environment deviations (client cancellation, stream failure, ticker ticks at every point) of the real Subscribe / GetData / WatchDeviations handlers compiled from instrumented sources under a cooperative scheduler; deadlock, panic, leftover goroutines and waiting at rest are detected per execution",
   text="Datastore.Subscribe with 1..3 (thorough 4) subscriptions over 0..2 stored leaves, Server.GetData -> Datastore.Get in the four encodings with 1..3 paths, and Server.WatchDeviations run on a synchronous in-memory cache with a controllable stream whose Send is a scheduling point. The environment may cancel the client, make the stream fail (the next and all later Sends return an error) and fire every ticker, at every scheduling point within the deviation bound; a stalled consumer is a Send that blocks until the client is gone. In every execution the handler must return, every goroutine it started must have finished, nothing may panic (double close, send on closed channel) or deadlock, and after a stream failure or exhausted data the handler must not wait for the client's cancellation.",
   note="gRPC's transport and flow control are represented by the Send seam only; the cache is synchronous (reads return pre-filled closed channels); a failed stream's context is cancelled by the environment only when nothing else can move."),
 "C07": dict(level="fault_enumeration", engine="E2-faults", design="DESIGN.md §3 C07",
   technique="exhaustive single-fault enumeration over every call the Datastore makes to target.Target, cache.Client and schema.Client during the last transaction of 10 scenarios (error and restart-at-call), each followed by a retry and compared with the fault-free run",
   text="For each scenario the last transaction runs fault-free on the real Datastore/cache to learn its collaborator call sequence; then every call k is made to fail once (error; Read returns nothing) and, separately, the process is cut off at call k and the Datastore rebuilt over the same cache. A device fault must yield an error, unchanged intent store and running mirror and an unlocked datastore; after every fault the repeated request must succeed and reach the fault-free device configuration and intent store. The fault space (calls x kinds) is enumerated completely.",
   note="One fault per run in both tiers (thorough adds scenarios); torn badger writes are not enumerated; cache reads cannot fail other than by returning nothing."),
 "C08": dict(level="model_checking", engine=E1, design="DESIGN.md §3 C08",
   technique="explicit-state BFS over histories with a choice-centred alphabet (top-level, nested and in-list choices, non-members with prefix-related names); device projected on choice members after every transition and compared with the winning case computed from the reference model",
   text="Exhaustive exploration of histories in which 3 owners with distinct priorities populate different cases of the same choice, are added, changed, re-prioritised and removed, one or two per transaction, with non-member siblings abx / eth-speedx in intents and in the running config. After every applied transition each choice instance on the device may hold nodes of one case only, namely the case of the lowest-priority-number contribution among live intents, whose members must carry the ruling values.",
   note="Bounded by depth/alphabet. Several structural defects are recorded as known findings (choices in lists, nested choices, multi-intent transactions, case activated by removal); the part that is clean and guarded is single-intent case switching on a top-level choice and the non-influence of non-members."),
 "C11": dict(level="exploration", engine="E3-inputs", design="DESIGN.md §3 C11",
   technique="bounded-exhaustive enumeration of instance paths (1/2/3-key lists in alphabetical and non-alphabetical key order, key values over a separator alphabet) through three round trips on the real code, and of all ordered pairs of enumerated paths for the collision clauses",
   text="Every instance path of six lists with key values from an explicit alphabet containing '/', '_', ':', '=', space and brackets goes through ToPath(ToStrings(p)), ParsePath(ToXPath(p)) and a real TransactionSet whose response, device payload, stores and GetData must name exactly p; with only p stored, every other enumerated path q (all ordered pairs) must not exist, have no branch precedence and return nothing from GetData.",
   note="Exhaustive within the printed lists and alphabets; ',' is excluded (cache library separator); key values with regular-expression meta characters other than brackets are not in the alphabet."),
 "C12": dict(level="exploration", engine="E3-inputs", design="DESIGN.md §3 C12",
   technique="exhaustive cross product of 23 leaf / leaf-list types x boundary and interior values x 4 client input forms through the real transaction pipeline, observed in 12 output forms with a denotation function; device XML text through the NETCONF adapter; EqualTypedValues on all pairs of produced typed values",
   text="Every (type, value, input form) is sent through the real TransactionSet; the value must denote the same datum at the recording device (proto typed value, gNMI typed value, JSON, JSON_IETF, XML text), in the intended and running store and in GetData STRING/PROTO/JSON/JSON_IETF. Each value is also fed as device XML text through XML2sdcpbConfigAdapter. All typed values produced for a leaf are compared pairwise: EqualTypedValues must agree with equality of denotation. The listed finite domain is enumerated completely.",
   note="Exhaustive only within the printed types and values (uint64 up to 2^64-1, decimal64 with fraction-digits 1/2/18, negative and leading-zero fractions, every union member, identityref, empty, leaf-lists)."),
 "C14": dict(level="model_checking", engine=E1, design="DESIGN.md §3 C14",
   technique="explicit-state BFS over histories (states) x exhaustive request menu (17 path sets x 5 datastore/data-type selections x 4 encodings) on the real Datastore.Get, compared with an element-wise prefix filter of the dumped stores; JSON documents interpreted by a schema-guided walker",
   text="Every state reached by the history search (plus preloaded running and STATE content with prefix-related names: mtu/mtu-ext, if/ifx, e1/e10) is queried with the whole request menu through Datastore.Get with a draining consumer. The returned leaf set (STRING/PROTO directly, JSON/JSON_IETF through the schema-guided interpreter) must equal the element-wise filter of the store dump; unknown paths and unsupported combinations must fail without data; the response channel is always closed; no panic, no hang.",
   note="Bounded by depth/alphabet and the printed request menu; INTENDED is compared with the highest-precedence entry per path; pkg/server.GetData's stream plumbing is C19's subject."),
 "C15": dict(level="exploration", engine="E3-inputs", design="DESIGN.md §3 C15",
   technique="bounded-exhaustive enumeration of store contents (3^4 combinations of running and three intents per path, for 9 leaf types and for pairs of paths) written into the real cache, one deviation cycle each through the hook, message multiset compared with a reference model",
   text="For each leaf type class all 81 combinations of running in {absent,v1,v2} and intents A@10,B@20,C@30 in {absent,v1,v2} (and for pairs of paths the product, complete in the thorough tier) are written directly into the CONFIG and INTENDED stores; one deviation cycle runs through the VerifRunDeviationCycle hook into a recording stream; the messages between START and END must equal, as a multiset of (reason, intent, path, expected, current), what the reference model derives from the store contents.",
   note="Exhaustive within the value domain {v1,v2} per type and at most two paths; values are typed the way the request pipeline types them."),
 "C20": dict(level="exploration", engine="E3-inputs", design="DESIGN.md §3 C20",
   technique="bounded-exhaustive input enumeration with a crash oracle, every case executed in worker subprocesses (panic in any goroutine, fatal error and hang are observed per case; SIGQUIT stack dump names the call site)",
   text="All path strings up to length 6 (quick) / 7 (thorough) over the alphabet 'a/[]=:\\ *' through ParsePath, StripPathElemPrefix, CompletePathFromString; the cross product of 53 paths (every schema node class, missing/extra/unknown keys, empty and nil elements) x 95 typed values (all 17 oneof kinds, nil forms, 33 JSON documents as JSON and JSON_IETF) through pkg/server.TransactionSet, also as replace intent and dry run; intent names x priorities x flags; GetData/Subscribe selectors; the same paths x values as device notifications (update and delete) through Datastore.Sync with validation on and off; NETCONF replies through the XML adapter and both tree importers; stored state x request: 19 typed values (leaf-lists of other lengths/element kinds, scalars of other kinds, nil forms, undecodable bytes) written into the running store at 7 kinds of leaves an intent configures, followed by re-applied, unrelated and ruling intents, a deviation cycle and GetData in four encodings. A case fails if it panics, crashes the process or does not return within 30 s three times.",
   note="Exhaustive only within the printed alphabets, sizes and document lists; 9466 cases in the quick tier."),
 "C18": dict(level="fault_enumeration", engine="E2-faults", design="DESIGN.md §3 C18",
   technique="exhaustive enumeration of behaviour assignments (ok / warning reply / error / rpc-error / EOF / dead) to every netconf.Driver call of the real ncTarget.Set, over real change documents, both commit-datastore settings and all 8 option combinations, with a candidate-modelling fake driver",
   text="The production NETCONF target (hook constructor around a harness driver) is driven through the real transaction pipeline. For 6 change-document scenarios x {candidate,running} x 8 XML option combinations x every assignment of behaviours to IsAlive/EditConfig/Commit/Discard the driver call log is checked: success = exactly one edit-config (+ exactly one commit), nothing for an empty change, a discard after any failure before the error is returned, and a following fault-free transaction never commits leftovers (the fake models the candidate's pending edits). The space is finite and enumerated completely.",
   note="The fake driver models the candidate pessimistically; rpc-error replies are surfaced as errors like the scrapligo adapter does; after EOF / dead connection nothing is demanded of the candidate."),
 "C09": dict(level="model_checking", engine=E1, design="DESIGN.md §3 C09",
   technique="explicit-state BFS over histories; from every reached state every non-empty subset of the live intents is re-submitted verbatim and the device payload in all encodings plus both stores are compared before/after",
   text="From every state reachable within the depth bound, every non-empty subset of the live intents (ruling, shadowed, mixed) is re-submitted with identical name, priority and content; the recording device renders the tree in all four encodings (8 XML option combinations) and all must be empty, the response must carry no updates/deletes and intended store, running store and device must be identical before and after.",
   note="Bounded by depth/alphabet; empty XML means the serialised document is the empty string; the gNMI/NETCONF adapters themselves are exercised by the conformance tier only when built."),
}

props = [json.loads(l) for l in open(f"{V}/properties.jsonl")]
checks, na = [], []
for p in props:
    pid = p["id"]
    c = CHECKS.get(pid)
    if not c:
        na.append({"property_id": pid, "reason": "check not built yet in this round (work in progress, see DESIGN.md §3); no claim is made"})
        continue
    checks.append({
        "property_id": pid,
        "quick_cmd": f"./run {pid} quick",
        "thorough_cmd": f"./run {pid} thorough",
        "evidence_file": f"/verif/evidence/{pid}.json",
        "replay_cmd_template": "./bin/vcheck replay {path}",
        "engine": c["engine"],
        "level_claimed": {"category": c["level"], "text": c["text"], "design_ref": c["design"]},
        "level_note": c["note"],
        "technique": c["technique"],
    })
hooks_commits = subprocess.run(["git", "-C", "/repo", "log", "--format=%h %s", "--grep=^verif hooks"], capture_output=True, text=True).stdout.strip().splitlines()
m = {
 "version": 1,
 "setup_cmd": "./build.sh && ./build-i.sh && ./build-t.sh",
 "hooks": {
   "guard": "verif",
   "enable": "go build -tags verif (harness module /verif/harness with replace github.com/sdcio/data-server => /repo)",
   "baseline_off_cmd": "cd /repo && GOFLAGS=-mod=mod GOPROXY=off GOSUMDB=off GOTOOLCHAIN=local go test -json -vet=off -count=1 -timeout 25m ./...",
   "source_commits": [l.split()[0] for l in hooks_commits],
   "add_only": True,
 },
 "engines": [
   {"name": "E2-faults", "path": "harness/h/check_c07.go", "serves_properties": ["C07", "C18"], "kind_free_text": "fault enumeration: every assignment of failure behaviours to the collaborator calls of one operation, each executed on the real code"},
   {"name": "E3-inputs", "path": "harness/h/check_c15.go", "serves_properties": ["C11", "C12", "C15", "C20"], "kind_free_text": "bounded-exhaustive enumeration of inputs / store contents over explicit finite domains, each case executed on the real code and judged by a reference model"},
   {"name": "E4-sched", "path": "rt/rt.go", "serves_properties": sorted(k for k, v in CHECKS.items() if v["engine"] == "E4-sched"), "kind_free_text": "controlled cooperative scheduler (rt/) + typed-AST source instrumenter (instr/) + stateless DFS with iterative preemption/deviation bounding (rt/explore.go); the implementation's own sync, channel, select, go and time operations are the scheduling points"},
   {"name": E1, "path": "harness/h/explore.go", "serves_properties": sorted(k for k, v in CHECKS.items() if v["engine"] == E1),
    "kind_free_text": "level-synchronous explicit-state search; successor = replay of the shortest history on a fresh real Datastore/cache instance + one operation; canonical state key without timestamps; per-property oracle plug-ins"},
 ],
 "checks": checks,
 "not_applicable": na,
 "notes": "All checks rebuild bin/vcheck from /repo's working tree (./build.sh) before running. known_findings.json lists recorded and fixed defects.",
}
json.dump(m, open(f"{V}/MANIFEST.json", "w"), indent=1)
try:
    import jsonschema
    jsonschema.validate(m, json.load(open("/root/.vp/MANIFEST.schema.json")))
    print("MANIFEST.json valid;", len(checks), "checks,", len(na), "not claimed")
except ImportError:
    print("jsonschema missing; not validated")
