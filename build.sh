#!/bin/bash
# Builds bin/vcheck from /verif/harness against /repo's current working tree, offline.
set -eu
export VERIF_DIR="${VERIF_DIR:-/verif}"
export GOFLAGS=-mod=mod GOPROXY=off GOSUMDB=off GOTOOLCHAIN=local
cd "$VERIF_DIR/harness"
mkdir -p "$VERIF_DIR/bin" "$VERIF_DIR/evidence" "$VERIF_DIR/replay"
# serialise concurrent builds (several checks may be started at once)
exec 9>"$VERIF_DIR/bin/.build.lock"
flock 9
go build -tags verif -o "$VERIF_DIR/bin/vcheck" ./cmd/vcheck
