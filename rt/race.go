package verifrt

import (
	"fmt"
	"runtime"
	"sort"
	"strings"
	"unsafe"
)

// Happens-before race detection over the modelled synchronisation (vector clocks, FastTrack-style shadow
// state). Instrumented packages compiled with -track report their struct-field and map accesses through
// R / W / MapR / MapW. Every explored execution is checked: two accesses to the same location, at least one
// a write, by different threads and unordered by the happens-before relation induced by go statements, mutex,
// RWMutex, WaitGroup, Once, channel and semaphore operations are reported in Result.Races.
//
// Soundness direction: synchronisation the runtime does not model exactly is over-approximated towards MORE
// happens-before edges (buffered channels: every earlier receive orders every later send; semaphores: every
// release orders every later acquire), so a reported race is a real one under the Go memory model.

type vclock []int32

func (v vclock) get(i int) int32 {
	if i < len(v) {
		return v[i]
	}
	return 0
}

func (v vclock) copyVC() vclock { return append(vclock(nil), v...) }

func joinVC(a, b vclock) vclock {
	if len(b) > len(a) {
		a = append(a, make(vclock, len(b)-len(a))...)
	}
	for i, x := range b {
		if x > a[i] {
			a[i] = x
		}
	}
	return a
}

func (t *thread) tick() {
	for len(t.vc) <= t.id {
		t.vc = append(t.vc, 0)
	}
	t.vc[t.id]++
}

// acquire / release helpers; called with rs.mu held, t is the acting thread (may be nil outside executions).
func acquireVC(t *thread, from vclock) {
	if t != nil && from != nil {
		t.vc = joinVC(t.vc, from)
	}
}

func releaseInto(t *thread, into *vclock, replace bool) {
	if t == nil {
		return
	}
	if replace {
		*into = t.vc.copyVC()
	} else {
		*into = joinVC(*into, t.vc)
	}
	t.tick()
}

type access struct {
	tid   int
	clock int32
	pc    uintptr
}

type shadow struct {
	write access
	hasW  bool
	reads []access
	keep  any
	what  string
}

type raceState struct {
	mem      map[uintptr]*shadow
	reported map[string]bool
	accesses int
}

func (r *runtimeState) resetRaceLocked() {
	r.race = &raceState{mem: map[uintptr]*shadow{}, reported: map[string]bool{}}
}

func site(pc uintptr) string {
	if pc == 0 {
		return "?"
	}
	fn := runtime.FuncForPC(pc - 1)
	if fn == nil {
		return "?"
	}
	file, line := fn.FileLine(pc - 1)
	if i := strings.Index(file, "/pkg/"); i >= 0 {
		file = file[i+1:]
	}
	name := fn.Name()
	if i := strings.LastIndex(name, "/"); i >= 0 {
		name = name[i+1:]
	}
	return fmt.Sprintf("%s:%d(%s)", file, line, name)
}

func (r *runtimeState) recordAccessLocked(addr uintptr, keep any, write bool, pc uintptr) {
	t := r.current
	if t == nil || r.race == nil {
		return
	}
	r.race.accesses++
	sh := r.race.mem[addr]
	if sh == nil {
		sh = &shadow{keep: keep, what: fmt.Sprintf("%T", keep)}
		r.race.mem[addr] = sh
	}
	me := access{tid: t.id, clock: t.vc.get(t.id), pc: pc}
	report := func(prev access, prevKind, curKind string) {
		a, b := site(prev.pc), site(pc)
		pair := []string{prevKind + " " + a, curKind + " " + b}
		sort.Strings(pair)
		key := sh.what + " " + pair[0] + " / " + pair[1]
		if r.race.reported[key] {
			return
		}
		r.race.reported[key] = true
		r.res.Races = append(r.res.Races, fmt.Sprintf("%s: %s / %s [threads %s(#%d) and %s(#%d)]", sh.what, pair[0], pair[1],
			r.threads[prev.tid].name, prev.tid, t.name, t.id))
	}
	// ordered after the last write?
	if sh.hasW && sh.write.tid != t.id && sh.write.clock > t.vc.get(sh.write.tid) {
		if write {
			report(sh.write, "write", "write")
		} else {
			report(sh.write, "write", "read")
		}
	}
	if write {
		for _, rd := range sh.reads {
			if rd.tid != t.id && rd.clock > t.vc.get(rd.tid) {
				report(rd, "read", "write")
			}
		}
		sh.write, sh.hasW = me, true
		sh.reads = sh.reads[:0]
		return
	}
	for i := range sh.reads {
		if sh.reads[i].tid == t.id {
			sh.reads[i] = me
			return
		}
	}
	sh.reads = append(sh.reads, me)
}

func callerPC() uintptr {
	var pcs [1]uintptr
	if runtime.Callers(3, pcs[:]) == 0 {
		return 0
	}
	return pcs[0]
}

// R records a read of *p by the running thread and returns p.
func R[T any](p *T) *T {
	if p == nil {
		return p
	}
	rs.mu.Lock()
	if rs.active && !rs.over && rs.race != nil {
		rs.recordAccessLocked(uintptr(unsafe.Pointer(p)), p, false, callerPC())
	}
	rs.mu.Unlock()
	return p
}

// W records a write of *p by the running thread and returns p.
func W[T any](p *T) *T {
	if p == nil {
		return p
	}
	rs.mu.Lock()
	if rs.active && !rs.over && rs.race != nil {
		rs.recordAccessLocked(uintptr(unsafe.Pointer(p)), p, true, callerPC())
	}
	rs.mu.Unlock()
	return p
}

func mapAddr[M ~map[K]V, K comparable, V any](m M) uintptr {
	return uintptr(*(*unsafe.Pointer)(unsafe.Pointer(&m)))
}

// MapR records a read of the map m (lookup, len, iteration).
func MapR[M ~map[K]V, K comparable, V any](m M) M {
	if m == nil {
		return m
	}
	rs.mu.Lock()
	if rs.active && !rs.over && rs.race != nil {
		rs.recordAccessLocked(mapAddr(m), m, false, callerPC())
	}
	rs.mu.Unlock()
	return m
}

// MapW records a modification of the map m (assignment to an element, delete).
func MapW[M ~map[K]V, K comparable, V any](m M) M {
	if m == nil {
		return m
	}
	rs.mu.Lock()
	if rs.active && !rs.over && rs.race != nil {
		rs.recordAccessLocked(mapAddr(m), m, true, callerPC())
	}
	rs.mu.Unlock()
	return m
}
