// Package verifrt is the controlled-scheduler runtime of the verification harness. It is compiled into the
// data-server module as the virtual package github.com/sdcio/data-server/pkg/verifrt through `go build -overlay`.
// Instrumented code (see /verif/instr) calls it at every synchronisation operation; exactly one "thread"
// (goroutine started through Go) runs at any time, every hooked operation is a scheduling point at which an
// explorer-supplied chooser decides who continues.
package verifrt

import (
	"fmt"
	"iter"
	"reflect"
	"runtime/debug"
	"sort"
	"strings"
	"sync"
	"time"
)

// OpKind names a hooked operation.
type OpKind string

const (
	OpStart     OpKind = "start"
	OpLock      OpKind = "lock"
	OpTryLock   OpKind = "trylock"
	OpRLock     OpKind = "rlock"
	OpWLock     OpKind = "wlock"
	OpWait      OpKind = "wg.wait"
	OpSend      OpKind = "send"
	OpRecv      OpKind = "recv"
	OpClose     OpKind = "close"
	OpSelect    OpKind = "select"
	OpSleep     OpKind = "sleep"
	OpPoint     OpKind = "point"
	OpAcquire   OpKind = "sem.acquire"
	OpEnv       OpKind = "env"
	OpBlockForever OpKind = "block"
	OpIdle         OpKind = "idle"
	OpChoice       OpKind = "choice" // a data choice of the running thread (no thread switch), e.g. the iteration order of a map
)

// thread is one cooperative thread.
type thread struct {
	lastRun int // step at which the thread was last scheduled
	idleAt  int // step at which the thread parked in Quiesce
	id      int
	name    string
	wake    chan struct{}
	op      *op
	done    bool
	started bool
	epoch   int
	vc      vclock // vector clock (race detector)
}

// op describes what a parked thread wants to do.
type op struct {
	kind  OpKind
	obj   any    // *Mutex state, channel id, ...
	label string // for traces
	sel   *Sel   // select descriptor
	n     int64  // weight (semaphore)
	val   any    // value to send / value received
	ok    bool   // receive: channel still open
	// result slots
	chosenCase   int
	completed    bool // a peer performed the rendezvous on behalf of this thread
	sendOnClosed bool
	realRecv     bool // foreign data channel: the thread receives for real after it was granted
}

// Choice is one entry of the enabled set at a scheduling point.
type Choice struct {
	Kind   OpKind
	Thread int    // thread id, or -1 for an environment event
	Env    string // name of the environment event
	Label  string
	Case   int // for selects with several ready cases: which case
}

// Point is one scheduling point of an execution as reported to the explorer.
type Point struct {
	Running        int  // thread that reached the point (-1 at the very start / after an exit)
	RunningEnabled bool // the running thread could continue
	Enabled        []Choice
	Chosen         int
}

// Chooser decides at every scheduling point (index into Enabled).
type Chooser func(p *Point) int

// EnvEvent is an environment event the scenario offers (timer expiry, context cancellation, ...).
type EnvEvent struct {
	Name    string
	Enabled func() bool
	Fire    func()
}

// Result of one execution.
type Result struct {
	Points    []Point
	Deadlock  bool
	Blocked   []string // what the blocked threads wait for (deadlock)
	Panic     string
	PanicStack string
	Horizon   bool // step budget exhausted
	Steps     int
	Threads   int
	Unfinished []string
	Forced    int      // scheduling points without a decision (not recorded in Points)
	Accesses  int      // field / map accesses seen by the race detector
	Races     []string // unsynchronised conflicting accesses found by the happens-before detector
}

type runtimeState struct {
	mu       sync.Mutex
	epoch    int
	threads  []*thread
	current  *thread
	chooser  Chooser
	envs     []*EnvEvent
	res      *Result
	maxSteps int
	finished chan struct{}
	over     bool
	chans    map[uintptr]*chanState
	clock    time.Time
	timers   []*Timer
	active   bool
	race     *raceState
}

var rs = &runtimeState{}

// Active reports whether a controlled execution is in progress (instrumented code running outside one
// falls back to real primitives).
func Active() bool {
	rs.mu.Lock()
	defer rs.mu.Unlock()
	return rs.active && !rs.over
}

// Run executes main as thread 0 under the chooser and returns the trace. Not re-entrant.
func Run(chooser Chooser, maxSteps int, envs []*EnvEvent, main func()) *Result {
	rs.mu.Lock()
	rs.epoch++
	rs.threads = nil
	rs.current = nil
	rs.chooser = chooser
	rs.envs = envs
	rs.res = &Result{}
	rs.maxSteps = maxSteps
	rs.finished = make(chan struct{})
	rs.over = false
	rs.chans = map[uintptr]*chanState{}
	rs.clock = time.Unix(1700000000, 0)
	rs.timers = nil
	rs.active = true
	rs.resetRaceLocked()
	res := rs.res
	fin := rs.finished
	t := rs.newThread("main")
	rs.mu.Unlock()

	go threadBody(t, main)
	// the runtime is driven by the threads themselves; kick off by scheduling from "nobody"
	rs.mu.Lock()
	rs.scheduleLocked(nil)
	rs.mu.Unlock()
	select {
	case <-fin:
	case <-time.After(60 * time.Second):
		rs.mu.Lock()
		if !rs.over {
			rs.over = true
			res.Panic = "harness watchdog: execution did not finish within 60 s (a thread blocks in an un-instrumented primitive?)\n" + allStacks()
		}
		rs.mu.Unlock()
	}
	rs.mu.Lock()
	rs.active = false
	if rs.race != nil {
		res.Accesses = rs.race.accesses
	}
	res.Threads = len(rs.threads)
	for _, th := range rs.threads {
		if !th.done {
			res.Unfinished = append(res.Unfinished, th.describe())
		}
	}
	rs.mu.Unlock()
	return res
}

func allStacks() string {
	return string(debug.Stack())
}

func (t *thread) describe() string {
	if t.op == nil {
		return fmt.Sprintf("%s(#%d) running", t.name, t.id)
	}
	return fmt.Sprintf("%s(#%d) at %s %s", t.name, t.id, t.op.kind, t.op.label)
}

func (r *runtimeState) newThread(name string) *thread {
	t := &thread{id: len(r.threads), name: name, wake: make(chan struct{}, 1), epoch: r.epoch}
	t.op = &op{kind: OpStart, label: name}
	r.threads = append(r.threads, t)
	// the go statement orders everything the parent did before it ahead of the child
	if parent := r.current; parent != nil && parent.epoch == r.epoch {
		t.vc = parent.vc.copyVC()
		parent.tick()
	}
	t.tick()
	return t
}

func threadBody(t *thread, fn func()) {
	<-t.wake // wait to be scheduled for the first time
	defer func() {
		if p := recover(); p != nil {
			if _, abandoned := p.(abandonT); abandoned {
				return
			}
			rs.mu.Lock()
			if t.epoch == rs.epoch && !rs.over {
				rs.res.Panic = fmt.Sprintf("thread %s(#%d): %v", t.name, t.id, p)
				rs.res.PanicStack = string(debug.Stack())
				rs.endLocked()
			}
			rs.mu.Unlock()
			return
		}
		rs.mu.Lock()
		if t.epoch == rs.epoch && !rs.over {
			t.done = true
			t.op = nil
			rs.scheduleLocked(nil)
		}
		rs.mu.Unlock()
	}()
	fn()
}

// abandonT unwinds threads of an execution that is over (deadlock, horizon, panic elsewhere).
type abandonT struct{}

func (r *runtimeState) endLocked() {
	if r.over {
		return
	}
	r.over = true
	close(r.finished)
}

// Go starts fn as a new controlled thread.
func Go(name string, fn func()) {
	rs.mu.Lock()
	if !rs.active || rs.over {
		rs.mu.Unlock()
		go fn()
		return
	}
	t := rs.newThread(name)
	rs.mu.Unlock()
	go threadBody(t, fn)
}

// enabledLocked computes whether the parked thread's op can proceed.
func (r *runtimeState) enabledLocked(t *thread) (bool, []int) {
	o := t.op
	if o == nil {
		return false, nil
	}
	if o.completed {
		return true, nil
	}
	switch o.kind {
	case OpStart, OpTryLock, OpSleep, OpPoint, OpClose, OpIdle:
		return true, nil
	case OpLock:
		return !o.obj.(*MutexState).locked, nil
	case OpRLock:
		m := o.obj.(*RWState)
		return !m.writer && m.pendingW == 0, nil
	case OpWLock:
		m := o.obj.(*RWState)
		return !m.writer && m.readers == 0, nil
	case OpWait:
		return o.obj.(*WGState).n <= 0, nil
	case OpAcquire:
		s := o.obj.(*SemState)
		return s.cur+o.n <= s.size, nil
	case OpSend:
		return r.canSendLocked(o.obj.(*chanState), t), nil
	case OpRecv:
		if st := o.obj.(*chanState); !st.owned && st.data && st.id != 0 && len(st.buf) == 0 && !st.closed {
			return true, nil
		}
		return r.canRecvLocked(o.obj.(*chanState), t), nil
	case OpSelect:
		if ok, choices := r.foreignDataSelectLocked(o.sel); ok {
			return true, choices
		}
		ready := r.readyCasesLocked(o.sel, t)
		if len(ready) > 0 {
			return true, ready
		}
		if o.sel.hasDefault {
			return true, []int{-1}
		}
		return false, nil
	case OpBlockForever:
		return false, nil
	}
	return false, nil
}

// scheduleLocked is called whenever the running thread parks or exits: it asks the chooser and wakes the winner.
// from is the thread that just parked (nil if it exited / at start).
func (r *runtimeState) scheduleLocked(from *thread) {
	if r.over {
		return
	}
	r.res.Steps++
	if r.res.Steps > r.maxSteps {
		r.res.Horizon = true
		r.endLocked()
		return
	}
	var enabled []Choice
	type pick struct {
		t   *thread
		env *EnvEvent
		cas int
	}
	var picks []pick
	add := func(t *thread) bool {
		ok, cases := r.enabledLocked(t)
		if !ok {
			return false
		}
		if len(cases) <= 1 {
			c := 0
			if len(cases) == 1 {
				c = cases[0]
			}
			enabled = append(enabled, Choice{Kind: t.op.kind, Thread: t.id, Label: string(t.op.kind) + " " + t.op.label, Case: c})
			picks = append(picks, pick{t: t, cas: c})
			return true
		}
		for _, c := range cases {
			enabled = append(enabled, Choice{Kind: t.op.kind, Thread: t.id, Label: fmt.Sprintf("%s %s case %d", t.op.kind, t.op.label, c), Case: c})
			picks = append(picks, pick{t: t, cas: c})
		}
		return true
	}
	// canonical order: the thread that reached the point first (if still enabled), then ascending ids, then env events
	runningEnabled := false
	lazy := func(t *thread) bool { return t.op != nil && !t.op.completed && (t.op.kind == OpSleep || t.op.kind == OpIdle) }
	if from != nil && !from.done && !lazy(from) {
		runningEnabled = add(from)
	}
	for _, t := range r.threads {
		if t == from || t.done || t.op == nil || lazy(t) {
			continue
		}
		add(t)
	}
	// sleeping and idling threads come last. An idling thread (Quiesce) continues only when nothing else can run
	// and every sleeper has run at least once since it went idle (so that a polling loop sees what the idler did).
	busy := len(enabled) > 0
	for _, t := range r.threads {
		if t.done || t.op == nil || !lazy(t) || t.op.kind != OpIdle || busy {
			continue
		}
		ready := true
		for _, s := range r.threads {
			if !s.done && s.op != nil && !s.op.completed && s.op.kind == OpSleep && s.lastRun <= t.idleAt {
				ready = false
			}
		}
		if ready {
			add(t)
		}
	}

	for _, e := range r.envs {
		if e.Enabled == nil || e.Enabled() {
			enabled = append(enabled, Choice{Thread: -1, Env: e.Name, Label: "env " + e.Name})
			picks = append(picks, pick{env: e})
		}
	}
	for _, tm := range r.timerEventsLocked() {
		tm := tm
		kind := "timer"
		if tm.ticker {
			kind = "tick"
		}
		name := fmt.Sprintf("%s#%d(%s)", kind, tm.id, tm.d)
		enabled = append(enabled, Choice{Thread: -1, Env: name, Label: "env " + name})
		picks = append(picks, pick{env: &EnvEvent{Name: name, Fire: func() { r.fireTimerLocked(tm) }}})
	}
	// sleepers last: time passes for them only by an explicit choice
	for _, t := range r.threads {
		if t.done || t.op == nil || !lazy(t) || t.op.kind != OpSleep {
			continue
		}
		add(t)
	}
	// live threads left?
	live := 0
	for _, t := range r.threads {
		if !t.done {
			live++
		}
	}
	if live == 0 {
		r.endLocked()
		return
	}
	threadChoices := 0
	for _, p := range picks {
		if p.t != nil {
			threadChoices++
		}
	}
	if len(enabled) == 0 && r.waitForeignLocked() {
		r.scheduleLocked(from)
		return
	}
	if len(enabled) == 0 {
		r.res.Deadlock = true
		for _, t := range r.threads {
			if !t.done {
				r.res.Blocked = append(r.res.Blocked, t.describe())
			}
		}
		r.endLocked()
		return
	}
	pt := Point{Running: -1, RunningEnabled: runningEnabled, Enabled: enabled}
	if from != nil {
		pt.Running = from.id
	}
	if len(enabled) == 1 && runningEnabled && picks[0].t == from {
		// the running thread is the only one that can move: no decision, no point. (Single-threaded phases
		// whose length depends on uncontrolled iteration orders do not shift the indices of the real choices.)
		r.res.Forced++
		t := picks[0].t
		r.performLocked(t, picks[0].cas)
		t.lastRun = r.res.Steps
		r.current = t
		t.wake <- struct{}{}
		return
	}
	idx := 0
	if len(enabled) > 1 || true {
		idx = r.chooser(&pt)
		if idx < 0 || idx >= len(enabled) {
			r.res.Panic = fmt.Sprintf("explorer: choice %d out of range (%d enabled) at point %d", idx, len(enabled), len(r.res.Points))
			r.endLocked()
			return
		}
	}
	pt.Chosen = idx
	r.res.Points = append(r.res.Points, pt)
	p := picks[idx]
	if p.env != nil {
		// an environment event fires; nobody runs meanwhile, then schedule again
		p.env.Fire()
		r.scheduleLocked(from)
		return
	}
	t := p.t
	r.performLocked(t, p.cas)
	t.lastRun = r.res.Steps
	r.current = t
	t.wake <- struct{}{}
}

// park is called by the running thread at a scheduling point with its op; it returns when the op was performed.
func park(o *op) {
	rs.mu.Lock()
	if !rs.active || rs.over {
		over := rs.over && rs.active
		rs.mu.Unlock()
		if over {
			panic(abandonT{})
		}
		return
	}
	t := rs.current
	if t == nil {
		rs.mu.Unlock()
		panic("verifrt: hooked operation outside a controlled thread")
	}
	epoch := t.epoch
	t.op = o
	if o.kind == OpIdle {
		t.idleAt = rs.res.Steps
	}
	rs.scheduleLocked(t)
	rs.mu.Unlock()
	<-t.wake
	rs.mu.Lock()
	stale := epoch != rs.epoch || rs.over
	rs.mu.Unlock()
	if stale {
		panic(abandonT{})
	}
}

// performLocked applies the state change of the granted op.
func (r *runtimeState) performLocked(t *thread, cas int) {
	o := t.op
	if o.completed {
		t.op = nil
		return
	}
	switch o.kind {
	case OpLock:
		o.obj.(*MutexState).locked = true
		acquireVC(t, o.obj.(*MutexState).vc)
	case OpTryLock:
		m := o.obj.(*MutexState)
		if !m.locked {
			m.locked = true
			acquireVC(t, m.vc)
			o.chosenCase = 1
		} else {
			o.chosenCase = 0
		}
	case OpRLock:
		m := o.obj.(*RWState)
		m.readers++
		acquireVC(t, m.wvc)
	case OpWLock:
		m := o.obj.(*RWState)
		m.writer = true
		m.pendingW--
		acquireVC(t, m.wvc)
		acquireVC(t, m.rvc)
	case OpWait:
		acquireVC(t, o.obj.(*WGState).vc)
	case OpAcquire:
		s := o.obj.(*SemState)
		s.cur += o.n
		acquireVC(t, s.vc)
	case OpSend:
		r.doSendLocked(o.obj.(*chanState), t)
	case OpRecv:
		if st := o.obj.(*chanState); !st.owned && st.data && st.id != 0 && len(st.buf) == 0 && !st.closed {
			o.realRecv = true
		} else {
			r.doRecvLocked(st, t)
		}
	case OpSelect:
		o.chosenCase = cas
		if cas >= 0 {
			r.doSelectCaseLocked(o.sel, cas, t)
		}
	}
	t.op = nil
}

// Point is an explicit scheduling point usable by harness fakes.
func YieldPoint(label string) {
	park(&op{kind: OpPoint, label: label})
}

// Sleep is a scheduling point; virtual time advances.
func Sleep(d time.Duration) {
	rs.mu.Lock()
	active := rs.active && !rs.over
	if active {
		rs.clock = rs.clock.Add(d)
	}
	rs.mu.Unlock()
	if !active {
		time.Sleep(d)
		return
	}
	park(&op{kind: OpSleep, label: d.String()})
}

// Now returns the virtual time.
func Now() time.Time {
	rs.mu.Lock()
	defer rs.mu.Unlock()
	if !rs.active {
		return time.Now()
	}
	rs.clock = rs.clock.Add(time.Microsecond)
	return rs.clock
}

// BlockForever parks the thread for good (select {}).
func BlockForever() {
	park(&op{kind: OpBlockForever})
}

// FormatTrace renders the chosen labels of a result (for replay files).
func FormatTrace(res *Result) []string {
	var out []string
	for i, p := range res.Points {
		c := p.Enabled[p.Chosen]
		alts := make([]string, 0, len(p.Enabled))
		for _, e := range p.Enabled {
			alts = append(alts, e.Label)
		}
		sort.Strings(alts)
		who := fmt.Sprintf("T%d", c.Thread)
		if c.Thread < 0 {
			who = "ENV"
		}
		out = append(out, fmt.Sprintf("%d: %s %s   [enabled: %s]", i, who, c.Label, strings.Join(alts, " | ")))
	}
	return out
}

// keyOf gives the identity of a channel value.
func keyOf(ch any) uintptr {
	v := reflect.ValueOf(ch)
	if v.Kind() != reflect.Chan || v.IsNil() {
		return 0
	}
	return v.Pointer()
}

// waitForeignLocked is the fallback when no thread is enabled: if some thread waits for a foreign channel
// (fed by an un-instrumented goroutine, e.g. the cache's reader), wait in real time for that channel.
func (r *runtimeState) waitForeignLocked() bool {
	var cases []reflect.SelectCase
	var states []*chanState
	addc := func(st *chanState) {
		if st != nil && !st.owned && st.id != 0 {
			cases = append(cases, reflect.SelectCase{Dir: reflect.SelectRecv, Chan: st.real})
			states = append(states, st)
		}
	}
	for _, t := range r.threads {
		if t.done || t.op == nil {
			continue
		}
		switch t.op.kind {
		case OpRecv:
			addc(t.op.obj.(*chanState))
		case OpSelect:
			for i := range t.op.sel.cases {
				c := &t.op.sel.cases[i]
				if !c.send {
					if c.st == nil {
						c.st = r.stateOfLocked(c.ch)
					}
					addc(c.st)
				}
			}
		}
	}
	if len(cases) == 0 {
		return false
	}
	timeout := time.After(3 * time.Second)
	cases = append(cases, reflect.SelectCase{Dir: reflect.SelectRecv, Chan: reflect.ValueOf(timeout)})
	r.mu.Unlock()
	i, v, ok := reflect.Select(cases)
	r.mu.Lock()
	if i == len(cases)-1 {
		return false
	}
	st := states[i]
	if !ok {
		st.closed = true
	} else {
		st.buf = append(st.buf, v.Interface())
	}
	return true
}

// Quiesce parks the calling thread until no other thread can make progress (sleepers excepted).
func Quiesce() {
	park(&op{kind: OpIdle, label: "quiesce"})
}

// FireTimers fires every armed virtual timer now (the harness's "wait for the timeout").
func FireTimers() int {
	rs.mu.Lock()
	defer rs.mu.Unlock()
	n := 0
	for _, t := range rs.timerEventsLocked() {
		if t.ticker {
			continue
		}
		rs.fireTimerLocked(t)
		n++
	}
	return n
}


// Choose is a data choice point of the running thread: the explorer picks a value in [0,n). Choice 0 is the default,
// any other value costs one deviation. Outside a controlled execution it returns 0.
func Choose(n int, label string) int {
	if n <= 1 {
		return 0
	}
	r := rs
	r.mu.Lock()
	defer r.mu.Unlock()
	if !r.active || r.over || r.current == nil {
		return 0
	}
	pt := Point{Running: r.current.id, RunningEnabled: true}
	for i := 0; i < n; i++ {
		pt.Enabled = append(pt.Enabled, Choice{Kind: OpChoice, Thread: r.current.id, Label: fmt.Sprintf("choice %s = %d", label, i), Case: i})
	}
	idx := r.chooser(&pt)
	if idx < 0 || idx >= n {
		r.res.Panic = fmt.Sprintf("explorer: choice %d out of range (%d values) at point %d", idx, n, len(r.res.Points))
		idx = 0
	}
	pt.Chosen = idx
	r.res.Points = append(r.res.Points, pt)
	return idx
}

// MapOrderChoices makes the iteration order of every ranged map with at least two entries a data choice
// (0: ascending printed keys, 1: descending), which covers both relative orders of every pair of entries.
var MapOrderChoices bool

// RangeMap replaces the map operand of range statements in instrumented files (option -detmaps): the entries are
// visited in the order of their printed keys instead of Go's randomised order, so that an execution is a function
// of the scheduler's choices alone. Entries deleted during the iteration are skipped, values are read when reached.
func RangeMap[M ~map[K]V, K comparable, V any](m M) iter.Seq2[K, V] {
	return func(yield func(K, V) bool) {
		MapR(m)
		type ent struct {
			k K
			s string
		}
		es := make([]ent, 0, len(m))
		for k := range m {
			var s string
			switch x := any(k).(type) {
			case string:
				s = x
			default:
				s = fmt.Sprintf("%v", k)
			}
			es = append(es, ent{k, s})
		}
		sort.SliceStable(es, func(i, j int) bool { return es[i].s < es[j].s })
		if MapOrderChoices && len(es) >= 2 && Choose(2, "map-order") == 1 {
			for i, j := 0, len(es)-1; i < j; i, j = i+1, j-1 {
				es[i], es[j] = es[j], es[i]
			}
		}
		for _, e := range es {
			v, ok := m[e.k]
			if !ok {
				continue
			}
			if !yield(e.k, v) {
				return
			}
		}
	}
}
