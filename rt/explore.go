package verifrt

import (
	"fmt"
	"os"
	"strings"
	"time"
)

// Stateless depth-first exploration with iterative context bounding (preemptions) and a deviation bound
// (environment events: timers, ticks, cancellations, injected failures).

type ExploreOpts struct {
	PreemptionBound int
	DeviationBound  int
	MaxSteps        int       // horizon per execution
	MaxExecutions   int       // cap (0 = none)
	Deadline        time.Time // cap (zero = none)
	// Shards > 1: only the first-level branches (alternatives along the default execution) whose running number
	// is congruent to Shard are explored, each with its whole subtree; shard 0 also accounts for the default execution.
	Shard, Shards int
	// SwitchBound > 0 bounds the number of points at which the running thread cannot continue (it blocked or
	// ended) and a thread other than the default successor is chosen. 0 = unbounded (every order of successors).
	SwitchBound int
}

// Scenario builds a fresh system for one execution.
type Scenario func() (envs []*EnvEvent, main func(), finish func(res *Result) (outcome string, violations []string))

type Execution struct {
	Choices    []int
	Res        *Result
	Outcome    string
	Violations []string
}

type ExploreStats struct {
	Executions   int
	Points       int
	Outcomes     map[string]int
	Capped       bool
	Divergences  int
	Horizons     int
	MaxPoints    int
	Accesses     int
	MaxThreads   int
	PreemptionBound, DeviationBound int
}

type explorer struct {
	opts   ExploreOpts
	sc     Scenario
	report func(*Execution)
	stats  *ExploreStats
}

func pointSig(p *Point) string {
	var sb strings.Builder
	fmt.Fprintf(&sb, "%d/%v:", p.Running, p.RunningEnabled)
	for _, c := range p.Enabled {
		fmt.Fprintf(&sb, "%d,%s,%d;", c.Thread, c.Env, c.Case)
	}
	return sb.String()
}

// RunOnce executes the scenario following the given choices (then always choice 0).
func RunOnce(sc Scenario, choices []int, maxSteps int, expectSigs []string) (*Execution, error) {
	envs, main, finish := sc()
	i := 0
	var diverged error
	chooser := func(p *Point) int {
		defer func() { i++ }()
		if i < len(expectSigs) && diverged == nil {
			if got := pointSig(p); got != expectSigs[i] {
				diverged = fmt.Errorf("replay divergence at point %d: enabled set %q, recorded %q", i, got, expectSigs[i])
			}
		}
		if i < len(choices) {
			if choices[i] >= len(p.Enabled) {
				if diverged == nil {
					diverged = fmt.Errorf("replay divergence at point %d: choice %d but only %d enabled", i, choices[i], len(p.Enabled))
				}
				return 0
			}
			return choices[i]
		}
		return 0
	}
	res := Run(chooser, maxSteps, envs, main)
	x := &Execution{Res: res}
	for _, p := range res.Points {
		x.Choices = append(x.Choices, p.Chosen)
	}
	if diverged != nil {
		return x, diverged
	}
	x.Outcome, x.Violations = finish(res)
	return x, nil
}

// switchCost: 1 if alternative k picks a non-default successor at a point where nothing is preempted.
func switchCost(p *Point, k int) int {
	if k == 0 || p.Enabled[k].Thread < 0 || p.Enabled[k].Kind == OpSleep || p.Enabled[k].Kind == OpChoice {
		return 0
	}
	if p.RunningEnabled {
		return 0 // that is a preemption
	}
	return 1
}

// cost of taking alternative k at point p: (preemptions, deviations)
func choiceCost(p *Point, k int) (int, int) {
	c := p.Enabled[k]
	if c.Kind == OpChoice {
		if k == 0 {
			return 0, 0
		}
		return 0, 1
	}
	if c.Thread < 0 {
		for _, e := range p.Enabled {
			if e.Thread >= 0 {
				return 0, 1
			}
		}
		// only the environment can move: the first event is the default continuation and free; preferring another
		// one (e.g. one more tick of a ticker instead of the pending cancellation) is a deviation, which also keeps
		// the execution space of periodic timers finite
		if k == 0 {
			return 0, 0
		}
		return 0, 1
	}
	if c.Kind == OpSleep {
		// letting a sleeper continue while another thread could run is a deviation (time running fast)
		for _, e := range p.Enabled {
			if e.Kind != OpSleep && (e.Thread != c.Thread) {
				return 0, 1
			}
		}
		return 0, 0
	}
	if p.RunningEnabled && c.Thread != p.Running {
		return 1, 0
	}
	return 0, 0
}

func (e *explorer) explore(prefix []int, sigs []string, pre, dev, sw int) {
	if e.stats.Capped {
		return
	}
	if e.opts.MaxExecutions > 0 && e.stats.Executions >= e.opts.MaxExecutions {
		e.stats.Capped = true
		return
	}
	if !e.opts.Deadline.IsZero() && time.Now().After(e.opts.Deadline) {
		e.stats.Capped = true
		return
	}
	x, err := RunOnce(e.sc, prefix, e.opts.MaxSteps, sigs)
	root := len(prefix) == 0 && e.opts.Shards > 1
	if !root || e.opts.Shard == 0 {
		e.stats.Executions++
	}
	if err != nil {
		// the same choices led to a different enabled set: uncontrolled nondeterminism. Retry a few times.
		for a := 0; a < 3 && err != nil; a++ {
			x, err = RunOnce(e.sc, prefix, e.opts.MaxSteps, sigs)
		}
		if err != nil {
			e.stats.Divergences++
			if e.stats.Divergences <= 3 && os.Getenv("VERIF_DEBUG_DIVERGENCE") != "" {
				fmt.Fprintf(os.Stderr, "DIVERGENCE %v\n  trace tail:\n   %s\n", err, strings.Join(around(FormatTrace(x.Res), err.Error()), "\n   "))
			}
			return
		}
	}
	if !root || e.opts.Shard == 0 {
		e.stats.Points += len(x.Res.Points)
		if len(x.Res.Points) > e.stats.MaxPoints {
			e.stats.MaxPoints = len(x.Res.Points)
		}
		if x.Res.Horizon {
			e.stats.Horizons++
		}
		e.stats.Accesses += x.Res.Accesses
		if x.Res.Threads > e.stats.MaxThreads {
			e.stats.MaxThreads = x.Res.Threads
		}
		e.stats.Outcomes[x.Outcome]++
		e.report(x)
	}
	branch := 0
	// costs accumulated along this execution
	allSigs := make([]string, len(x.Res.Points))
	for i := range x.Res.Points {
		allSigs[i] = pointSig(&x.Res.Points[i])
	}
	p, d, w := pre, dev, sw
	for i := len(prefix); i < len(x.Res.Points); i++ {
		pt := &x.Res.Points[i]
		for alt := 1; alt < len(pt.Enabled); alt++ {
			cp, cd := choiceCost(pt, alt)
			if p+cp > e.opts.PreemptionBound || d+cd > e.opts.DeviationBound {
				continue
			}
			cs := switchCost(pt, alt)
			if e.opts.SwitchBound > 0 && w+cs > e.opts.SwitchBound {
				continue
			}
			if root {
				branch++
				if (branch-1)%e.opts.Shards != e.opts.Shard {
					continue
				}
			}
			np := append(append([]int{}, x.Choices[:i]...), alt)
			e.explore(np, allSigs[:i+1], p+cp, d+cd, w+cs)
			if e.stats.Capped {
				return
			}
		}
		// the default continuation (choice 0) may itself have a cost (e.g. only env events enabled: free)
		cp, cd := choiceCost(pt, pt.Chosen)
		p, d = p+cp, d+cd
	}
}

// Explore enumerates all executions within the bounds.
func Explore(opts ExploreOpts, sc Scenario, report func(*Execution)) *ExploreStats {
	if opts.MaxSteps == 0 {
		opts.MaxSteps = 5000
	}
	st := &ExploreStats{Outcomes: map[string]int{}, PreemptionBound: opts.PreemptionBound, DeviationBound: opts.DeviationBound}
	e := &explorer{opts: opts, sc: sc, report: report, stats: st}
	e.explore(nil, nil, 0, 0, 0)
	return st
}

func tail(l []string, n int) []string {
	if len(l) > n {
		return l[len(l)-n:]
	}
	return l
}

func around(l []string, msg string) []string {
	var idx int
	if _, err := fmt.Sscanf(msg, "replay divergence at point %d", &idx); err != nil {
		return tail(l, 12)
	}
	lo, hi := idx-10, idx+3
	if lo < 0 {
		lo = 0
	}
	if hi > len(l) {
		hi = len(l)
	}
	return l[lo:hi]
}
