package verifrt

import (
	"fmt"
	"reflect"
	"time"
)

// chanState is the modelled state of a channel. Owned channels (created by MakeChan in instrumented code)
// keep their data here; foreign channels are polled on the real channel.
type chanState struct {
	id     uintptr
	cap    int
	buf    []any
	closed bool
	owned  bool
	real   reflect.Value
	label  string
	// race detector: clock of the sender of every buffered value (aligned with buf), of all receivers so far, of the closer
	bufVC   []vclock
	recvVC  vclock
	closeVC vclock
	data    bool // foreign channel carrying values (see stateOfLocked)
}

// exchangeVC: a rendezvous on an unbuffered channel orders both sides.
func exchangeVC(a, b *thread) {
	if a == nil || b == nil {
		return
	}
	av := a.vc.copyVC()
	a.vc = joinVC(a.vc, b.vc)
	b.vc = joinVC(b.vc, av)
	a.tick()
	b.tick()
}

// MakeChan replaces make(chan T, n) in instrumented files.
func MakeChan[T any](n ...int) chan T {
	c := 0
	if len(n) > 0 {
		c = n[0]
	}
	ch := make(chan T, c)
	rs.mu.Lock()
	if rs.active && !rs.over {
		rs.chans[keyOf(ch)] = &chanState{id: keyOf(ch), cap: c, owned: true, real: reflect.ValueOf(ch), label: fmt.Sprintf("chan#%d(%T)", len(rs.chans), ch)}
	}
	rs.mu.Unlock()
	return ch
}

func (r *runtimeState) stateOfLocked(ch any) *chanState {
	k := keyOf(ch)
	if k == 0 {
		return &chanState{id: 0, label: "nil-chan"} // nil channel: never ready
	}
	if st, ok := r.chans[k]; ok {
		return st
	}
	v := reflect.ValueOf(ch)
	st := &chanState{id: k, cap: v.Cap(), owned: false, real: v, label: fmt.Sprintf("foreign#%d(%s)", len(r.chans), v.Type())}
	// a foreign channel that carries values is fed by a goroutine of an un-instrumented package (cache reads,
	// schema streams): a receive on it is always offered and, when chosen, blocks for real until the value is
	// there - its readiness must not depend on how far that goroutine got in real time. Signal channels
	// (chan struct{}: ctx.Done) are waited for by polling, they are closed by the environment.
	st.data = v.Type().Elem().Size() != 0
	r.chans[k] = st
	return st
}

// SelCase is one case of a select.
type SelCase struct {
	send bool
	ch   any
	val  any
	st   *chanState
}

// Sel is a select in progress / its outcome.
type Sel struct {
	cases      []SelCase
	hasDefault bool
	Index      int
	recvVal    any
	recvOK     bool
}

func CaseRecv[T any](ch <-chan T) SelCase     { return SelCase{ch: ch} }
func CaseSend[T any](ch chan<- T, v T) SelCase { return SelCase{send: true, ch: ch, val: v} }

// peersLocked finds a parked thread (other than self) that offers the complementary operation on st.
// wantSender=true looks for a sender, false for a receiver. Returns thread and, for selects, the case index (-2 = plain op).
func (r *runtimeState) peerLocked(st *chanState, self *thread, wantSender bool) (*thread, int) {
	for _, t := range r.threads {
		if t == self || t.done || t.op == nil || t.op.completed {
			continue
		}
		switch t.op.kind {
		case OpSend:
			if wantSender && t.op.obj.(*chanState) == st {
				return t, -2
			}
		case OpRecv:
			if !wantSender && t.op.obj.(*chanState) == st {
				return t, -2
			}
		case OpSelect:
			for i, c := range t.op.sel.cases {
				if c.st == st && c.send == wantSender {
					return t, i
				}
			}
		}
	}
	return nil, 0
}

func (r *runtimeState) canSendLocked(st *chanState, self *thread) bool {
	if st.id == 0 {
		return false
	}
	if !st.owned {
		return true // foreign: performed for real (blocking) when chosen
	}
	if st.closed {
		return true // will panic
	}
	if st.cap > 0 {
		return len(st.buf) < st.cap
	}
	p, _ := r.peerLocked(st, self, false)
	return p != nil
}

func (r *runtimeState) canRecvLocked(st *chanState, self *thread) bool {
	if st.id == 0 {
		return false
	}
	if !st.owned {
		return r.pollForeignLocked(st)
	}
	if len(st.buf) > 0 || st.closed {
		return true
	}
	if st.cap == 0 {
		p, _ := r.peerLocked(st, self, true)
		return p != nil
	}
	return false
}

// pollForeignLocked tries a non-blocking receive on a foreign channel and stashes what it got.
func (r *runtimeState) pollForeignLocked(st *chanState) bool {
	if len(st.buf) > 0 || st.closed {
		return true
	}
	v, ok := st.real.TryRecv()
	if !ok && !v.IsValid() {
		return false // would block
	}
	if !ok {
		st.closed = true
		return true
	}
	st.buf = append(st.buf, v.Interface())
	return true
}

func (r *runtimeState) doSendLocked(st *chanState, t *thread) {
	o := t.op
	if !st.owned {
		return // real send happens in the thread after it was granted
	}
	if st.closed {
		o.sendOnClosed = true
		return
	}
	if st.cap > 0 {
		// (over-approximation towards more happens-before: every earlier receive orders this send)
		acquireVC(t, st.recvVC)
		st.buf = append(st.buf, o.val)
		st.bufVC = append(st.bufVC, t.vc.copyVC())
		t.tick()
		return
	}
	p, ci := r.peerLocked(st, t, false)
	if p == nil {
		o.sendOnClosed = false
		st.buf = append(st.buf, o.val) // cannot happen (enabledness), keep the value
		st.bufVC = append(st.bufVC, nil)
		return
	}
	exchangeVC(t, p)
	r.completeRecvLocked(p, ci, o.val, true)
}

// completeRecvLocked hands a value to a parked receiver (plain recv or select case ci).
func (r *runtimeState) completeRecvLocked(p *thread, ci int, v any, ok bool) {
	if ci == -2 {
		p.op.val, p.op.ok = v, ok
	} else {
		p.op.chosenCase = ci
		p.op.sel.recvVal, p.op.sel.recvOK = v, ok
	}
	p.op.completed = true
}

func (r *runtimeState) doRecvLocked(st *chanState, t *thread) {
	o := t.op
	if len(st.buf) > 0 {
		o.val, o.ok = st.buf[0], true
		st.buf = st.buf[1:]
		if len(st.bufVC) > 0 {
			acquireVC(t, st.bufVC[0])
			st.bufVC = st.bufVC[1:]
		}
		if st.owned {
			releaseInto(t, &st.recvVC, false)
		}
		return
	}
	if st.closed {
		o.val, o.ok = nil, false
		acquireVC(t, st.closeVC)
		return
	}
	if st.owned && st.cap == 0 {
		p, ci := r.peerLocked(st, t, true)
		if p != nil {
			exchangeVC(t, p)
			if ci == -2 {
				o.val, o.ok = p.op.val, true
			} else {
				o.val, o.ok = p.op.sel.cases[ci].val, true
				p.op.chosenCase = ci
			}
			p.op.completed = true
		}
	}
}

// foreignDataSelectLocked: no default, only receives on foreign channels, at least one carrying data, nothing
// stashed. Returns the choices to offer: every signal case (chan struct{}) that is ready now, by index, and -3 =
// "take the data": the thread then receives for real, data cases first.
func (r *runtimeState) foreignDataSelectLocked(s *Sel) (bool, []int) {
	if s.hasDefault || len(s.cases) == 0 {
		return false, nil
	}
	data := false
	var ready []int
	for i := range s.cases {
		c := &s.cases[i]
		if c.st == nil {
			c.st = r.stateOfLocked(c.ch)
		}
		if c.st.id == 0 && !c.send {
			continue // nil channel (e.g. context.Background().Done()): never ready
		}
		if c.send || c.st.owned {
			return false, nil
		}
		if c.st.data {
			if len(c.st.buf) > 0 || c.st.closed {
				return false, nil // something was stashed by an earlier poll: ordinary path
			}
			data = true
			continue
		}
		if r.pollForeignLocked(c.st) {
			ready = append(ready, i)
		}
	}
	if !data {
		return false, nil
	}
	return true, append(ready, -3)
}

func (r *runtimeState) readyCasesLocked(s *Sel, t *thread) []int {
	var ready []int
	for i := range s.cases {
		c := &s.cases[i]
		if c.st == nil {
			c.st = r.stateOfLocked(c.ch)
		}
		if c.send {
			if r.canSendLocked(c.st, t) {
				ready = append(ready, i)
			}
		} else if r.canRecvLocked(c.st, t) {
			ready = append(ready, i)
		}
	}
	return ready
}

func (r *runtimeState) doSelectCaseLocked(s *Sel, ci int, t *thread) {
	c := &s.cases[ci]
	if c.send {
		saved := t.op.val
		t.op.val = c.val
		r.doSendLocked(c.st, t)
		t.op.val = saved
		return
	}
	tmp := &op{}
	cur := t.op
	t.op = tmp
	r.doRecvLocked(c.st, t)
	t.op = cur
	s.recvVal, s.recvOK = tmp.val, tmp.ok
}

// Send replaces `ch <- v`.
func Send[T any](ch chan<- T, v T) {
	if !Active() {
		ch <- v
		return
	}
	rs.mu.Lock()
	st := rs.stateOfLocked(ch)
	rs.mu.Unlock()
	o := &op{kind: OpSend, obj: st, val: v, label: st.label}
	park(o)
	if !st.owned {
		ch <- v
		return
	}
	if o.sendOnClosed {
		panic("send on closed channel")
	}
}

func recvAny(ch any) (any, bool, *chanState) {
	rs.mu.Lock()
	st := rs.stateOfLocked(ch)
	rs.mu.Unlock()
	o := &op{kind: OpRecv, obj: st, label: st.label}
	park(o)
	if o.realRecv {
		v, ok := st.real.Recv()
		if !ok {
			rs.mu.Lock()
			st.closed = true
			rs.mu.Unlock()
			return nil, false, st
		}
		return v.Interface(), true, st
	}
	return o.val, o.ok, st
}

// Recv replaces `<-ch`.
func Recv[T any](ch <-chan T) T {
	if !Active() {
		return <-ch
	}
	v, _, _ := recvAny(ch)
	if v == nil {
		var z T
		return z
	}
	return v.(T)
}

// Recv2 replaces `v, ok := <-ch`.
func Recv2[T any](ch <-chan T) (T, bool) {
	if !Active() {
		v, ok := <-ch
		return v, ok
	}
	v, ok, _ := recvAny(ch)
	if v == nil {
		var z T
		return z, ok
	}
	return v.(T), ok
}

// Close replaces close(ch).
func Close[T any](ch chan<- T) {
	if !Active() {
		close(ch)
		return
	}
	rs.mu.Lock()
	st := rs.stateOfLocked(ch)
	rs.mu.Unlock()
	park(&op{kind: OpClose, obj: st, label: st.label})
	rs.mu.Lock()
	if st.owned {
		if st.closed {
			rs.mu.Unlock()
			panic("close of closed channel")
		}
		st.closed = true
		releaseInto(rs.current, &st.closeVC, true)
		rs.mu.Unlock()
		defer func() { recover() }() // the real channel only serves as identity
		close(ch)
		return
	}
	rs.mu.Unlock()
	close(ch)
}

// Select replaces a select statement; Index is the chosen case (-1 = default).
func Select(hasDefault bool, cases ...SelCase) *Sel {
	s := &Sel{cases: cases, hasDefault: hasDefault}
	if !Active() {
		return realSelect(s)
	}
	o := &op{kind: OpSelect, sel: s, label: fmt.Sprintf("%d cases", len(cases))}
	park(o)
	if o.chosenCase == -3 {
		// all cases are receives on foreign channels, one of them carries data: take data that is already
		// there (in case order), otherwise wait for real on all cases
		for i := range s.cases {
			c := &s.cases[i]
			if c.st == nil || !c.st.data {
				continue
			}
			if v, ok := c.st.real.TryRecv(); ok || v.IsValid() {
				s.Index, s.recvOK = i, ok
				if ok {
					s.recvVal = v.Interface()
				}
				return s
			} else if !ok && !v.IsValid() {
				continue // would block
			}
		}
		return realSelect(s)
	}
	s.Index = o.chosenCase
	if s.Index >= 0 {
		c := s.cases[s.Index]
		if c.send {
			if !c.st.owned {
				reflect.ValueOf(c.ch).Send(reflect.ValueOf(c.val))
			} else if o.sendOnClosed {
				panic("send on closed channel")
			}
		}
	}
	return s
}

func realSelect(s *Sel) *Sel {
	var rc []reflect.SelectCase
	for _, c := range s.cases {
		if c.send {
			rc = append(rc, reflect.SelectCase{Dir: reflect.SelectSend, Chan: reflect.ValueOf(c.ch), Send: reflect.ValueOf(c.val)})
		} else {
			rc = append(rc, reflect.SelectCase{Dir: reflect.SelectRecv, Chan: reflect.ValueOf(c.ch)})
		}
	}
	if s.hasDefault {
		rc = append(rc, reflect.SelectCase{Dir: reflect.SelectDefault})
	}
	i, v, ok := reflect.Select(rc)
	if s.hasDefault && i == len(rc)-1 {
		s.Index = -1
		return s
	}
	s.Index = i
	if !s.cases[i].send {
		s.recvOK = ok
		if v.IsValid() && ok {
			s.recvVal = v.Interface()
		}
	}
	return s
}

// SelRecv returns the value received by the chosen case.
func SelRecv[T any](s *Sel, ch <-chan T) T {
	if s.recvVal == nil {
		var z T
		return z
	}
	return s.recvVal.(T)
}

// SelRecv2 returns the value and ok flag received by the chosen case.
func SelRecv2[T any](s *Sel, ch <-chan T) (T, bool) {
	return SelRecv(s, ch), s.recvOK
}

// ---------------------------------------------------------------------------
// virtual timers

// Timer replaces *time.Timer in instrumented files.
type Timer struct {
	C       chan time.Time
	d       time.Duration
	fired   bool
	stopped bool
	real    *time.Timer
	stopFn  func()
	id      int
	ticker  bool
}

func newTimer(d time.Duration, ticker bool) *Timer {
	if !Active() {
		t := &Timer{C: make(chan time.Time, 1), d: d}
		if ticker {
			rt := time.NewTicker(d)
			go func() {
				for x := range rt.C {
					select {
					case t.C <- x:
					default:
					}
				}
			}()
			t.stopFn = rt.Stop
		} else {
			t.real = time.AfterFunc(d, func() {
				select {
				case t.C <- time.Now():
				default:
				}
			})
		}
		return t
	}
	t := &Timer{C: MakeChan[time.Time](1), d: d, ticker: ticker}
	rs.mu.Lock()
	t.id = len(rs.timers)
	rs.timers = append(rs.timers, t)
	rs.mu.Unlock()
	return t
}

// NewTimer replaces time.NewTimer.
func NewTimer(d time.Duration) *Timer { return newTimer(d, false) }

// Stop replaces (*time.Timer).Stop.
func (t *Timer) Stop() bool {
	if t.real != nil {
		return t.real.Stop()
	}
	if t.stopFn != nil {
		t.stopFn()
		return true
	}
	rs.mu.Lock()
	defer rs.mu.Unlock()
	was := !t.fired && !t.stopped
	t.stopped = true
	return was
}

// Reset replaces (*time.Timer).Reset.
func (t *Timer) Reset(d time.Duration) bool {
	if t.real != nil {
		return t.real.Reset(d)
	}
	rs.mu.Lock()
	defer rs.mu.Unlock()
	was := !t.fired && !t.stopped
	t.fired, t.stopped, t.d = false, false, d
	return was
}

// Ticker replaces *time.Ticker.
type Ticker = Timer

// NewTicker replaces time.NewTicker.
func NewTicker(d time.Duration) *Ticker {
	if d <= 0 {
		panic("non-positive interval for NewTicker")
	}
	return newTimer(d, true)
}

// After replaces time.After.
func After(d time.Duration) <-chan time.Time { return newTimer(d, false).C }

// timerEventsLocked lists the timers that may fire now.
func (r *runtimeState) timerEventsLocked() []*Timer {
	var res []*Timer
	for _, t := range r.timers {
		if t.stopped || (t.fired && !t.ticker) {
			continue
		}
		// a tick that finds the ticker's channel full is dropped (as by the Go runtime) and changes nothing: it is
		// not offered, so that a system in which only such ticks remain is recognised as deadlocked
		if st := r.stateOfLocked(t.C); t.ticker && len(st.buf) >= st.cap {
			continue
		}
		res = append(res, t)
	}
	return res
}

func (r *runtimeState) fireTimerLocked(t *Timer) {
	t.fired = true
	r.clock = r.clock.Add(t.d)
	st := r.stateOfLocked(t.C)
	if len(st.buf) < st.cap {
		st.buf = append(st.buf, r.clock)
		st.bufVC = append(st.bufVC, nil)
	}
}
