// Package vsync replaces package sync in instrumented files (imported under the name sync).
package vsync

import (
	realsync "sync"

	"github.com/sdcio/data-server/pkg/verifrt"
)

type Mutex struct{ s verifrt.MutexState }

func (m *Mutex) Lock()         { m.s.Lock() }
func (m *Mutex) Unlock()       { m.s.Unlock() }
func (m *Mutex) TryLock() bool { return m.s.TryLock() }

type RWMutex struct{ s verifrt.RWState }

func (m *RWMutex) Lock()    { m.s.Lock() }
func (m *RWMutex) Unlock()  { m.s.Unlock() }
func (m *RWMutex) RLock()   { m.s.RLock() }
func (m *RWMutex) RUnlock() { m.s.RUnlock() }

type WaitGroup struct{ s verifrt.WGState }

func (w *WaitGroup) Add(d int) { w.s.Add(d) }
func (w *WaitGroup) Done()     { w.s.Done() }
func (w *WaitGroup) Wait()     { w.s.Wait() }

// pass-through types
type (
	Map    = realsync.Map
	Pool   = realsync.Pool
	Locker = realsync.Locker
)

// Once is modelled on the modelled mutex: a second caller waits (visibly to the scheduler) until the first
// call of f has returned, as with sync.Once.
type Once struct {
	m    Mutex
	done bool
}

func (o *Once) Do(f func()) {
	o.m.Lock()
	defer o.m.Unlock()
	if !o.done {
		defer func() { o.done = true }()
		f()
	}
}
