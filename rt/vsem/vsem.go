// Package vsem replaces golang.org/x/sync/semaphore in instrumented files (imported under the name semaphore).
package vsem

import (
	"context"

	"github.com/sdcio/data-server/pkg/verifrt"
)

type Weighted struct{ s *verifrt.SemState }

func NewWeighted(n int64) *Weighted { return &Weighted{s: verifrt.NewSem(n)} }

func (w *Weighted) Acquire(ctx context.Context, n int64) error { return w.s.Acquire(ctx, n) }
func (w *Weighted) TryAcquire(n int64) bool                    { return w.s.TryAcquire(n) }
func (w *Weighted) Release(n int64)                            { w.s.Release(n) }
