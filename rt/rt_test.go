package verifrt

import (
	"fmt"
	"testing"
	"time"
)

func TestLostUpdate(t *testing.T) {
	sc := func() ([]*EnvEvent, func(), func(*Result) (string, []string)) {
		x := 0
		var wg WGState
		main := func() {
			wg.Add(2)
			for i := 0; i < 2; i++ {
				Go("inc", func() {
					YieldPoint("read")
					v := x
					YieldPoint("write")
					x = v + 1
					wg.Done()
				})
			}
			wg.Wait()
		}
		return nil, main, func(r *Result) (string, []string) {
			return fmt.Sprintf("x=%d dl=%v p=%q", x, r.Deadlock, r.Panic), nil
		}
	}
	for pb := 0; pb <= 2; pb++ {
		st := Explore(ExploreOpts{PreemptionBound: pb}, sc, func(*Execution) {})
		t.Logf("pb=%d executions=%d outcomes=%v", pb, st.Executions, st.Outcomes)
	}
}

func TestDeadlockABBA(t *testing.T) {
	sc := func() ([]*EnvEvent, func(), func(*Result) (string, []string)) {
		var a, b MutexState
		var wg WGState
		main := func() {
			wg.Add(2)
			Go("ab", func() { a.Lock(); b.Lock(); b.Unlock(); a.Unlock(); wg.Done() })
			Go("ba", func() { b.Lock(); a.Lock(); a.Unlock(); b.Unlock(); wg.Done() })
			wg.Wait()
		}
		return nil, main, func(r *Result) (string, []string) { return fmt.Sprintf("dl=%v", r.Deadlock), nil }
	}
	st := Explore(ExploreOpts{PreemptionBound: 1}, sc, func(*Execution) {})
	t.Logf("executions=%d outcomes=%v", st.Executions, st.Outcomes)
	if st.Outcomes["dl=true"] == 0 {
		t.Fatal("deadlock not found")
	}
}

func TestChannelsSelectTimer(t *testing.T) {
	sc := func() ([]*EnvEvent, func(), func(*Result) (string, []string)) {
		got := ""
		main := func() {
			ch := MakeChan[int]()
			done := MakeChan[struct{}]()
			Go("producer", func() {
				Send(ch, 1)
				Send(ch, 2)
				Close(ch)
			})
			Go("consumer", func() {
				tm := NewTimer(time.Second)
				for {
					s := Select(false, CaseRecv(ch), CaseRecv(tm.C))
					switch s.Index {
					case 0:
						v, ok := SelRecv2(s, ch)
						if !ok {
							got += "closed"
							Close(done)
							return
						}
						got += fmt.Sprint(v)
					case 1:
						got += "T"
					}
				}
			})
			Recv(done)
		}
		return nil, main, func(r *Result) (string, []string) {
			return fmt.Sprintf("%s dl=%v p=%q", got, r.Deadlock, r.Panic), nil
		}
	}
	st := Explore(ExploreOpts{PreemptionBound: 1, DeviationBound: 1}, sc, func(*Execution) {})
	t.Logf("executions=%d outcomes=%v div=%d", st.Executions, st.Outcomes, st.Divergences)
	if st.Outcomes[`12closed dl=false p=""`] == 0 {
		t.Fatal("expected outcome missing")
	}
}

func TestDoubleClosePanic(t *testing.T) {
	sc := func() ([]*EnvEvent, func(), func(*Result) (string, []string)) {
		main := func() {
			ch := MakeChan[struct{}]()
			var wg WGState
			wg.Add(2)
			for i := 0; i < 2; i++ {
				Go("closer", func() { defer wg.Done(); Close(ch) })
			}
			wg.Wait()
		}
		return nil, main, func(r *Result) (string, []string) { return fmt.Sprintf("panic=%v", r.Panic != ""), nil }
	}
	st := Explore(ExploreOpts{}, sc, func(*Execution) {})
	t.Logf("executions=%d outcomes=%v", st.Executions, st.Outcomes)
	if st.Outcomes["panic=true"] == 0 {
		t.Fatal("double close not detected")
	}
}

// race detector: unsynchronised conflicting accesses are reported, synchronised ones are not

type raceBox struct{ v int }

func raceScenario(body func(b *raceBox, wg *WGState)) Scenario {
	return func() ([]*EnvEvent, func(), func(*Result) (string, []string)) {
		b := &raceBox{}
		var wg WGState
		main := func() { body(b, &wg) }
		return nil, main, func(r *Result) (string, []string) { return fmt.Sprintf("races=%d", len(r.Races)), r.Races }
	}
}

func racesFound(sc Scenario) (int, int) {
	withRace, execs := 0, 0
	Explore(ExploreOpts{PreemptionBound: 2, MaxSteps: 1000}, sc, func(x *Execution) {
		execs++
		if len(x.Res.Races) > 0 {
			withRace++
		}
	})
	return withRace, execs
}

func TestRaceUnsynchronised(t *testing.T) {
	sc := raceScenario(func(b *raceBox, wg *WGState) {
		wg.Add(2)
		Go("w", func() { *W(&b.v) = 1; wg.Done() })
		Go("r", func() { _ = *R(&b.v); wg.Done() })
		wg.Wait()
	})
	n, execs := racesFound(sc)
	if n != execs || execs == 0 {
		t.Fatalf("write/read without synchronisation: race reported in %d of %d executions, want all", n, execs)
	}
}

func TestRaceMutex(t *testing.T) {
	sc := raceScenario(func(b *raceBox, wg *WGState) {
		var mu MutexState
		wg.Add(2)
		for i := 0; i < 2; i++ {
			Go("w", func() { mu.Lock(); *W(&b.v) = *R(&b.v) + 1; mu.Unlock(); wg.Done() })
		}
		wg.Wait()
		_ = *R(&b.v)
	})
	if n, execs := racesFound(sc); n != 0 || execs < 2 {
		t.Fatalf("mutex protected accesses: race reported in %d of %d executions", n, execs)
	}
}

func TestRaceRWMutexReadersAndWriter(t *testing.T) {
	// two readers under RLock do not race; a writer under RLock does
	ok := raceScenario(func(b *raceBox, wg *WGState) {
		var mu RWState
		wg.Add(3)
		Go("w", func() { mu.Lock(); *W(&b.v) = 1; mu.Unlock(); wg.Done() })
		for i := 0; i < 2; i++ {
			Go("r", func() { mu.RLock(); _ = *R(&b.v); mu.RUnlock(); wg.Done() })
		}
		wg.Wait()
	})
	if n, execs := racesFound(ok); n != 0 || execs < 2 {
		t.Fatalf("rwmutex protected accesses: race reported in %d of %d executions", n, execs)
	}
	bad := raceScenario(func(b *raceBox, wg *WGState) {
		var mu RWState
		wg.Add(2)
		for i := 0; i < 2; i++ {
			Go("w", func() { mu.RLock(); *W(&b.v) = 1; mu.RUnlock(); wg.Done() })
		}
		wg.Wait()
	})
	if n, execs := racesFound(bad); n != execs {
		t.Fatalf("writes under RLock: race reported in %d of %d executions, want all", n, execs)
	}
}

func TestRaceChannelAndGoOrdering(t *testing.T) {
	sc := raceScenario(func(b *raceBox, wg *WGState) {
		*W(&b.v) = 1 // before go: ordered
		ch := MakeChan[int]()
		Go("child", func() { *W(&b.v) = *R(&b.v) + 1; Send(ch, 1) })
		Recv(ch)
		_ = *R(&b.v) // after the receive: ordered
		ch2 := MakeChan[int](1)
		Go("child2", func() { *W(&b.v) = 5; Close(ch2) })
		Recv2(ch2)
		*W(&b.v) = 6
	})
	if n, execs := racesFound(sc); n != 0 || execs == 0 {
		t.Fatalf("go / channel ordered accesses: race reported in %d of %d executions", n, execs)
	}
}

func TestRaceMapAndWaitGroup(t *testing.T) {
	sc := func() ([]*EnvEvent, func(), func(*Result) (string, []string)) {
		m := map[string]int{}
		main := func() {
			var wg WGState
			wg.Add(2)
			Go("a", func() { MapW(m)["a"] = 1; wg.Done() })
			Go("b", func() { _ = MapR(m)["a"]; wg.Done() })
			wg.Wait()
			_ = len(MapR(m)) // ordered by Wait
		}
		return nil, main, func(r *Result) (string, []string) { return "", r.Races }
	}
	n, execs := racesFound(sc)
	if n != execs || execs == 0 {
		t.Fatalf("concurrent map write/read: race reported in %d of %d executions, want all", n, execs)
	}
	// exactly one race pair (the Wait orders the final len)
	Explore(ExploreOpts{PreemptionBound: 0, MaxSteps: 1000}, sc, func(x *Execution) {
		if len(x.Res.Races) != 1 {
			t.Fatalf("want exactly one race, got %v", x.Res.Races)
		}
	})
}

// TestMapOrderChoice: with MapOrderChoices the iteration order of a ranged map is a data choice that costs one
// deviation: "first entry wins" code has one outcome within deviation bound 0 and two within bound 1.
func TestMapOrderChoice(t *testing.T) {
	MapOrderChoices = true
	defer func() { MapOrderChoices = false }()
	sc := func() ([]*EnvEvent, func(), func(*Result) (string, []string)) {
		first := ""
		main := func() {
			m := map[string]int{"a": 1, "b": 2, "c": 3}
			for k := range RangeMap(m) {
				first = k
				break
			}
			for range RangeMap(map[string]int{"x": 1}) { // a single entry: no choice
			}
		}
		return nil, main, func(r *Result) (string, []string) { return first, nil }
	}
	st0 := Explore(ExploreOpts{}, sc, func(*Execution) {})
	st1 := Explore(ExploreOpts{DeviationBound: 1}, sc, func(*Execution) {})
	t.Logf("db=0 %v, db=1 %v", st0.Outcomes, st1.Outcomes)
	if len(st0.Outcomes) != 1 || st0.Outcomes["a"] != 1 || len(st1.Outcomes) != 2 || st1.Outcomes["c"] != 1 || st1.Executions != 2 {
		t.Fatalf("unexpected outcomes: db=0 %v, db=1 %v (%d executions)", st0.Outcomes, st1.Outcomes, st1.Executions)
	}
}
