package verifrt

import (
	"fmt"
	"testing"
	"time"
)

func TestLostUpdate(t *testing.T) {
	sc := func() ([]*EnvEvent, func(), func(*Result) (string, []string)) {
		x := 0
		var wg WGState
		main := func() {
			wg.Add(2)
			for i := 0; i < 2; i++ {
				Go("inc", func() {
					YieldPoint("read")
					v := x
					YieldPoint("write")
					x = v + 1
					wg.Done()
				})
			}
			wg.Wait()
		}
		return nil, main, func(r *Result) (string, []string) {
			return fmt.Sprintf("x=%d dl=%v p=%q", x, r.Deadlock, r.Panic), nil
		}
	}
	for pb := 0; pb <= 2; pb++ {
		st := Explore(ExploreOpts{PreemptionBound: pb}, sc, func(*Execution) {})
		t.Logf("pb=%d executions=%d outcomes=%v", pb, st.Executions, st.Outcomes)
	}
}

func TestDeadlockABBA(t *testing.T) {
	sc := func() ([]*EnvEvent, func(), func(*Result) (string, []string)) {
		var a, b MutexState
		var wg WGState
		main := func() {
			wg.Add(2)
			Go("ab", func() { a.Lock(); b.Lock(); b.Unlock(); a.Unlock(); wg.Done() })
			Go("ba", func() { b.Lock(); a.Lock(); a.Unlock(); b.Unlock(); wg.Done() })
			wg.Wait()
		}
		return nil, main, func(r *Result) (string, []string) { return fmt.Sprintf("dl=%v", r.Deadlock), nil }
	}
	st := Explore(ExploreOpts{PreemptionBound: 1}, sc, func(*Execution) {})
	t.Logf("executions=%d outcomes=%v", st.Executions, st.Outcomes)
	if st.Outcomes["dl=true"] == 0 {
		t.Fatal("deadlock not found")
	}
}

func TestChannelsSelectTimer(t *testing.T) {
	sc := func() ([]*EnvEvent, func(), func(*Result) (string, []string)) {
		got := ""
		main := func() {
			ch := MakeChan[int]()
			done := MakeChan[struct{}]()
			Go("producer", func() {
				Send(ch, 1)
				Send(ch, 2)
				Close(ch)
			})
			Go("consumer", func() {
				tm := NewTimer(time.Second)
				for {
					s := Select(false, CaseRecv(ch), CaseRecv(tm.C))
					switch s.Index {
					case 0:
						v, ok := SelRecv2(s, ch)
						if !ok {
							got += "closed"
							Close(done)
							return
						}
						got += fmt.Sprint(v)
					case 1:
						got += "T"
					}
				}
			})
			Recv(done)
		}
		return nil, main, func(r *Result) (string, []string) {
			return fmt.Sprintf("%s dl=%v p=%q", got, r.Deadlock, r.Panic), nil
		}
	}
	st := Explore(ExploreOpts{PreemptionBound: 1, DeviationBound: 1}, sc, func(*Execution) {})
	t.Logf("executions=%d outcomes=%v div=%d", st.Executions, st.Outcomes, st.Divergences)
	if st.Outcomes[`12closed dl=false p=""`] == 0 {
		t.Fatal("expected outcome missing")
	}
}

func TestDoubleClosePanic(t *testing.T) {
	sc := func() ([]*EnvEvent, func(), func(*Result) (string, []string)) {
		main := func() {
			ch := MakeChan[struct{}]()
			var wg WGState
			wg.Add(2)
			for i := 0; i < 2; i++ {
				Go("closer", func() { defer wg.Done(); Close(ch) })
			}
			wg.Wait()
		}
		return nil, main, func(r *Result) (string, []string) { return fmt.Sprintf("panic=%v", r.Panic != ""), nil }
	}
	st := Explore(ExploreOpts{}, sc, func(*Execution) {})
	t.Logf("executions=%d outcomes=%v", st.Executions, st.Outcomes)
	if st.Outcomes["panic=true"] == 0 {
		t.Fatal("double close not detected")
	}
}
