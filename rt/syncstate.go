package verifrt

import (
	"context"
	"fmt"
	"sync"
)

// MutexState is the modelled state of a sync.Mutex; Real is used outside controlled executions.
type MutexState struct {
	locked bool
	vc     vclock
	Real   sync.Mutex
}

func (m *MutexState) Lock() {
	if !Active() {
		m.Real.Lock()
		return
	}
	park(&op{kind: OpLock, obj: m, label: fmt.Sprintf("mutex %p", m)})
}

func (m *MutexState) TryLock() bool {
	if !Active() {
		return m.Real.TryLock()
	}
	o := &op{kind: OpTryLock, obj: m, label: fmt.Sprintf("mutex %p", m)}
	park(o)
	return o.chosenCase == 1
}

func (m *MutexState) Unlock() {
	if !Active() {
		m.Real.Unlock()
		return
	}
	rs.mu.Lock()
	if !m.locked {
		rs.mu.Unlock()
		panic("sync: unlock of unlocked mutex")
	}
	m.locked = false
	releaseInto(rs.current, &m.vc, true)
	rs.mu.Unlock()
}

// RWState models sync.RWMutex including Go's writer preference (a pending Lock blocks new RLocks).
type RWState struct {
	readers  int
	writer   bool
	pendingW int
	wvc, rvc vclock
	Real     sync.RWMutex
}

func (m *RWState) RLock() {
	if !Active() {
		m.Real.RLock()
		return
	}
	park(&op{kind: OpRLock, obj: m, label: fmt.Sprintf("rwmutex %p", m)})
}

func (m *RWState) RUnlock() {
	if !Active() {
		m.Real.RUnlock()
		return
	}
	rs.mu.Lock()
	if m.readers <= 0 {
		rs.mu.Unlock()
		panic("sync: RUnlock of unlocked RWMutex")
	}
	m.readers--
	releaseInto(rs.current, &m.rvc, false)
	rs.mu.Unlock()
}

func (m *RWState) Lock() {
	if !Active() {
		m.Real.Lock()
		return
	}
	rs.mu.Lock()
	m.pendingW++
	rs.mu.Unlock()
	park(&op{kind: OpWLock, obj: m, label: fmt.Sprintf("rwmutex %p", m)})
}

func (m *RWState) Unlock() {
	if !Active() {
		m.Real.Unlock()
		return
	}
	rs.mu.Lock()
	if !m.writer {
		rs.mu.Unlock()
		panic("sync: Unlock of unlocked RWMutex")
	}
	m.writer = false
	releaseInto(rs.current, &m.wvc, true)
	rs.mu.Unlock()
}

// WGState models sync.WaitGroup.
type WGState struct {
	n    int
	vc   vclock
	Real sync.WaitGroup
}

func (w *WGState) Add(d int) {
	if !Active() {
		w.Real.Add(d)
		return
	}
	rs.mu.Lock()
	w.n += d
	if d < 0 {
		releaseInto(rs.current, &w.vc, false)
	}
	neg := w.n < 0
	rs.mu.Unlock()
	if neg {
		panic("sync: negative WaitGroup counter")
	}
}

func (w *WGState) Done() { w.Add(-1) }

func (w *WGState) Wait() {
	if !Active() {
		w.Real.Wait()
		return
	}
	park(&op{kind: OpWait, obj: w, label: fmt.Sprintf("waitgroup %p", w)})
}

// SemState models golang.org/x/sync/semaphore.Weighted.
type SemState struct {
	size, cur int64
	vc        vclock
	realCh    chan struct{}
}

func NewSem(n int64) *SemState {
	return &SemState{size: n, realCh: make(chan struct{}, n)}
}

func (s *SemState) Acquire(ctx context.Context, n int64) error {
	if !Active() {
		for i := int64(0); i < n; i++ {
			select {
			case s.realCh <- struct{}{}:
			case <-ctx.Done():
				return ctx.Err()
			}
		}
		return nil
	}
	if err := ctx.Err(); err != nil {
		return err
	}
	park(&op{kind: OpAcquire, obj: s, n: n, label: fmt.Sprintf("semaphore %p", s)})
	return nil
}

func (s *SemState) TryAcquire(n int64) bool {
	if !Active() {
		select {
		case s.realCh <- struct{}{}:
			return true
		default:
			return false
		}
	}
	rs.mu.Lock()
	defer rs.mu.Unlock()
	if s.cur+n <= s.size {
		s.cur += n
		acquireVC(rs.current, s.vc)
		return true
	}
	return false
}

func (s *SemState) Release(n int64) {
	if !Active() {
		for i := int64(0); i < n; i++ {
			<-s.realCh
		}
		return
	}
	rs.mu.Lock()
	s.cur -= n
	releaseInto(rs.current, &s.vc, false)
	neg := s.cur < 0
	rs.mu.Unlock()
	if neg {
		panic("semaphore: released more than held")
	}
}
